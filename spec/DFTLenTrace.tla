------------------------------ MODULE DFTLenTrace ------------------------------
(* C16 (S-lite): a recorded history of surface_timeseries calls.  Each record: key (all arguments   *)
(* except the seed), seed, dig (digest of the returned series), n / nt (lengths of series and time  *)
(* axis), dt1000 (time step * 1000 * fs, must be 1000).  Reproducible: same (key, seed) => same     *)
(* digest wherever it occurs in the history; different seeds (same key) => different digests.      *)
EXTENDS Integers, Sequences, FiniteSets, SequencesExt, TLC, Json, IOUtils
Recs == ndJsonDeserialize(IOEnv.TRACE_FILE)
VARIABLE i
Bad(k) == LET r == Recs[k] IN
    (IF r.n = r.nt /\ r.n = 2 * (r.L \div 2) THEN {} ELSE {"Length"})
    \cup (IF r.dt1000 = 1000 THEN {} ELSE {"Spacing"})
    \cup (IF \E j \in 1..(k - 1) : Recs[j].key = r.key /\ Recs[j].seed = r.seed /\ Recs[j].dig # r.dig THEN {"NotReproducible"} ELSE {})
    \cup (IF \E j \in 1..(k - 1) : Recs[j].key = r.key /\ Recs[j].seed # r.seed /\ Recs[j].dig = r.dig THEN {"SeedIgnored"} ELSE {})
TInit == i = 1
Step == /\ i <= Len(Recs)
        /\ LET B == Bad(i) IN IF B = {} THEN TRUE ELSE PrintT("@@" \o ToJson([id |-> Recs[i].id, clauses |-> SetToSeq(B)]))
        /\ i' = i + 1
Done == i = Len(Recs) + 1 /\ PrintT("@@" \o ToJson([done |-> TRUE, consumed |-> Len(Recs)])) /\ i' = i + 1
TSpec == TInit /\ [][Step \/ Done]_i
================================================================================
