SPECIFICATION GSpec
CONSTANTS
  Key <- MCKey
  SizeKB <- MCSize
  PPKeys <- MCPP
  ValKeys <- MCVal
  Limits <- MCLimits
  MB = 1000
  MaxFaults = 0
  MaxReqLen = 3
  Chunked = FALSE
  Variant = "fixed"
  GenDepth = 30
  GenCrash = FALSE
INVARIANT Emit
INVARIANT NoViolation
CONSTRAINT Bound
CHECK_DEADLOCK FALSE
