-------------------------------- MODULE MeanDir --------------------------------
(***************************************************************************************)
(* C03 (definition part): band-averaged directional moments and the sector that must   *)
(* contain the mean direction, in exact arithmetic.                                    *)
(*                                                                                     *)
(* A 1-D spectrum carries per frequency e[j] (integer) and moments a1[j] = pq[j][1]/4,  *)
(* b1[j] = pq[j][2]/4 (inside the unit disc).  With TA = 2*trapezoid(e*4*a1) and        *)
(* TB = 2*trapezoid(e*4*b1) over the band and M0 = 2*trapezoid(e):                      *)
(*      A = TA / (4*M0),  B = TB / (4*M0),  mean direction = atan2(TB, TA).            *)
(* The signs of TA, TB and the comparison |TA| vs |TB| fix a closed 45 degree sector    *)
(* (a single angle on the 8 sector boundaries): a swapped atan2, a sign error or a      *)
(* degree/radian slip leaves the sector.  TLC checks that the sector is consistent      *)
(* under the dihedral symmetries of the moments (swap, negations) and emits cases.      *)
(***************************************************************************************)
EXTENDS MCSpectrum1D

CONSTANTS PQ          \* allowed (4*a1, 4*b1) pairs
VARIABLES pq
mvars == <<f, e, nan, stage, pq>>

TA(ff, ee, pp, lo2, hi2) == Moment2(ff, [j \in 1..Len(ff) |-> ee[j] * pp[j][1]], [j \in 1..Len(ff) |-> FALSE], 0, lo2, hi2)
TB(ff, ee, pp, lo2, hi2) == Moment2(ff, [j \in 1..Len(ff) |-> ee[j] * pp[j][2]], [j \in 1..Len(ff) |-> FALSE], 0, lo2, hi2)

\* closed sector <<lo, hi>> (degrees, in [-180, 180]) containing atan2(y, x); <<999, 999>> if x = y = 0
Sector(x, y) ==
    LET ax == IF x < 0 THEN 0 - x ELSE x   ay == IF y < 0 THEN 0 - y ELSE y
    IN IF x = 0 /\ y = 0 THEN <<999, 999>>
       ELSE IF y = 0 THEN (IF x > 0 THEN <<0, 0>> ELSE <<180, 180>>)
       ELSE IF x = 0 THEN (IF y > 0 THEN <<90, 90>> ELSE <<0 - 90, 0 - 90>>)
       ELSE IF ax = ay THEN (IF x > 0 THEN (IF y > 0 THEN <<45, 45>> ELSE <<0 - 45, 0 - 45>>)
                                      ELSE (IF y > 0 THEN <<135, 135>> ELSE <<0 - 135, 0 - 135>>))
       ELSE IF x > 0 /\ y > 0 THEN (IF ay < ax THEN <<0, 45>> ELSE <<45, 90>>)
       ELSE IF x < 0 /\ y > 0 THEN (IF ay > ax THEN <<90, 135>> ELSE <<135, 180>>)
       ELSE IF x < 0 /\ y < 0 THEN (IF ay < ax THEN <<0 - 180, 0 - 135>> ELSE <<0 - 135, 0 - 90>>)
       ELSE (IF ay > ax THEN <<0 - 90, 0 - 45>> ELSE <<0 - 45, 0>>)

MInit == f = <<0, 1>> /\ e = <<0, 0>> /\ nan = <<FALSE, FALSE>> /\ stage = "idle" /\ pq = <<>>
MNext == \/ stage = "idle" /\ f' \in Grids /\ e' = e /\ nan' = nan /\ stage' = "grid" /\ pq' = pq
         \/ stage = "grid" /\ f' = f /\ e' \in [1..N -> Vals] /\ nan' = [j \in 1..N |-> FALSE]
            /\ pq' = pq /\ stage' = "vals"
         \/ stage = "vals" /\ UNCHANGED <<f, e, nan>> /\ pq' \in [1..N -> PQ] /\ stage' = "case"
MSpec == MInit /\ [][MNext]_mvars

Neg(s) == IF s[1] = 999 THEN s ELSE <<0 - s[2], 0 - s[1]>>
MLaws == Leaf => \A b \in RepBands(f) :
    LET x == TA(f, e, pq, b[1], b[2])  y == TB(f, e, pq, b[1], b[2])  s == Sector(x, y)
    IN /\ (s[1] # 999 => s[1] <= s[2] /\ s[2] - s[1] \in {0, 45} /\ s[1] >= 0 - 180 /\ s[2] <= 180)
       /\ (y # 0 => Sector(x, 0 - y) = Neg(s))                       \* mirror: direction negated
       /\ Sector(2 * x, 2 * y) = s                                   \* scale invariance
       /\ (x > 0 /\ y > 0 => Sector(y, x) = <<90 - s[2], 90 - s[1]>>)  \* swap = reflection about 45 degrees
       \* |A|, |B| <= 1 for moments inside the unit disc and non-negative e
       /\ LET m0 == Moment2(f, e, nan, 0, b[1], b[2]) IN x * x + y * y <= 16 * m0 * m0

MEmit == Leaf => PrintT("@@" \o ToJson([f |-> f, e |-> e, pq |-> pq,
            bands |-> [k \in 1..Len(BandSeq(f)) |->
               LET b == BandSeq(f)[k] IN
               [lo2 |-> b[1], hi2 |-> b[2], ta |-> TA(f, e, pq, b[1], b[2]), tb |-> TB(f, e, pq, b[1], b[2]),
                m0 |-> Moment2(f, e, nan, 0, b[1], b[2]),
                sector |-> Sector(TA(f, e, pq, b[1], b[2]), TB(f, e, pq, b[1], b[2]))]],
            perfreq |-> [j \in 1..N |-> Sector(pq[j][1], pq[j][2])]]))
================================================================================
