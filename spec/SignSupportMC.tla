----------------------------- MODULE SignSupportMC -----------------------------
(* Laws of the abstractions, checked by TLC on every wind direction / grid start / sign vector:    *)
(* joint rotation of grid and wind leaves the allowed signs unchanged, mirroring too, the support   *)
(* is never more than half the circle, sign vectors: reversing maps cell c to n - c.               *)
EXTENDS SignSupport, Json
CONSTANTS N, VecLen
VARIABLES w, start, sg, stage
vars == <<w, start, sg, stage>>
Delta == 360 \div N
Dir(j, s0) == s0 + (j - 1) * Delta
Init == w = 0 /\ start = 0 /\ sg = <<1, 1>> /\ stage = "idle"
Next == \/ stage = "idle" /\ w' \in {15 * k : k \in 0..23} /\ start' \in {0, 5, Delta \div 2, 0 - 170} /\ sg' = sg /\ stage' = "wind"
        \/ stage = "wind" /\ UNCHANGED <<w, start>> /\ sg' \in UNION {[1..n -> {0 - 1, 1}] : n \in 2..VecLen} /\ stage' = "vec"
Spec == Init /\ [][Next]_vars
Rev(s) == [i \in 1..Len(s) |-> s[Len(s) + 1 - i]]
Laws == stage # "idle" =>
    /\ \A j \in 1..N, k \in {1, 5, N - 1} :
          InputSigns(Dir(j, start) + k * Delta, w + k * Delta, TRUE, 360) = InputSigns(Dir(j, start), w, TRUE, 360)      \* joint rotation
    /\ \A j \in 1..N : InputSigns(0 - Dir(j, start), 0 - w, TRUE, 360) = InputSigns(Dir(j, start), w, TRUE, 360)          \* mirror
    /\ Cardinality({j \in 1..N : Downwind(Dir(j, start), w, 360)}) * 2 <= N                                         \* at most half the circle
    /\ \A j \in 1..N : InputSigns(Dir(j, start), w, FALSE, 360) = {0} /\ DissSigns(FALSE) = {0}
    /\ \A j \in 1..N : InputSigns(2 * Dir(j, start), 2 * w, TRUE, 720) = InputSigns(Dir(j, start), w, TRUE, 360)     \* unit independence
    /\ (stage = "vec" => /\ Cardinality(Changes(Rev(sg))) = Cardinality(Changes(sg))
                         /\ (SingleRoot(sg) => RootCell(Rev(sg)) = Len(sg) - RootCell(sg))
                         /\ (SingleRoot(sg) => RootOK(sg, RootCell(sg), TRUE) /\ ~RootOK(sg, 0, TRUE) /\ RootOK(sg, 0, FALSE)))
================================================================================
