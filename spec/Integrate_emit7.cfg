SPECIFICATION Spec
CONSTANTS
  Alphabet = {1000, 1005, 1020, 2000}
  MaxLen = 7
  EmitLen = 7
  Order = 4
  NImp = 1
  WarmUp = 4
INVARIANT HeadMay
INVARIANT HeadMust
INVARIANT Emit
CHECK_DEADLOCK FALSE
