------------------------------ MODULE Spectrum1D ------------------------------
(***************************************************************************************)
(* C01 / C04 (and the selection part of C12): exact reference for frequency moments    *)
(* and peak selection of a 1-D spectrum on integer data.                               *)
(*                                                                                     *)
(*   f      strictly increasing frequencies (integers; f = 0 allowed)                  *)
(*   e      variance densities (non-negative integers), nan[j] marks a missing value   *)
(*   band   [fmin, fmax) given on the half-integer lattice as fmin2 = 2*fmin,          *)
(*          fmax2 = 2*fmax (Inf2 stands for "no upper limit")                          *)
(*                                                                                     *)
(*   Moment2(n) = 2 * trapezoidal integral of e * f^n over the grid points inside the  *)
(*                band, missing values counted as zero  (an integer)                   *)
(*   Peak       = least index inside the band at which e attains its maximum over the  *)
(*                non-missing in-band values; unspecified when that maximum is not > 0 *)
(*                                                                                     *)
(* TLC state = one (grid, values, mask, band).  Invariants = the consequences C01      *)
(* lists: linearity (scaling, sums), m1^2 <= m0*m2 (Tm02 <= Tm01), f_lo*m0 <= m1 <=      *)
(* f_hi*m0 (both periods between 1/f_last and 1/f_first of the band).                  *)
(***************************************************************************************)
EXTENDS Integers, Sequences, FiniteSets, FiniteSetsExt, SequencesExt, TLC, Json

CONSTANTS FLattice, Sizes, Vals, Inf2, MaxNan, Mode   \* Mode = "laws" (all bands) | "emit" (representative bands)

VARIABLES f, e, nan, stage
svars == <<f, e, nan, stage>>

N == Len(f)
RECURSIVE Pow(_, _)
Pow(x, n) == IF n = 0 THEN 1 ELSE x * Pow(x, n - 1)
SumOver(S, F(_)) == FoldSet(LAMBDA x, acc : acc + F(x), 0, S)

InBand(ff, j, lo2, hi2) == 2 * ff[j] >= lo2 /\ (hi2 = Inf2 \/ 2 * ff[j] < hi2)
Sel(ff, lo2, hi2) == {j \in 1..Len(ff) : InBand(ff, j, lo2, hi2)}
Y(ff, ee, nn, j, n) == IF nn[j] THEN 0 ELSE ee[j] * Pow(ff[j], n)
\* twice the trapezoid over consecutive selected points
Moment2(ff, ee, nn, n, lo2, hi2) ==
    LET S == Sel(ff, lo2, hi2)
    IN SumOver({j \in S : j + 1 \in S}, LAMBDA j : (ff[j + 1] - ff[j]) * (Y(ff, ee, nn, j, n) + Y(ff, ee, nn, j + 1, n)))

Cand(ff, ee, nn, lo2, hi2) == {j \in Sel(ff, lo2, hi2) : ~nn[j]}
PeakDefined(ff, ee, nn, lo2, hi2) == Cand(ff, ee, nn, lo2, hi2) # {} /\ Max({ee[j] : j \in Cand(ff, ee, nn, lo2, hi2)}) > 0
PeakIdx(ff, ee, nn, lo2, hi2) ==
    LET C == Cand(ff, ee, nn, lo2, hi2)  mx == Max({ee[j] : j \in C})
    IN Min({j \in C : ee[j] = mx})

\* band candidates
AllBands == {<<lo2, hi2>> \in ((0 - 1)..(2 * Max(FLattice) + 1)) \X ((0..(2 * Max(FLattice) + 2)) \cup {Inf2}) : hi2 = Inf2 \/ lo2 < hi2}
RepBands(ff) == LET los == {0} \cup {2 * ff[j] - 1 : j \in 1..Len(ff)} \cup {2 * ff[j] : j \in 1..Len(ff)}
                    his == {Inf2} \cup {2 * ff[j] : j \in 1..Len(ff)} \cup {2 * ff[j] + 1 : j \in 1..Len(ff)}
                IN {b \in los \X his : b[2] = Inf2 \/ b[1] < b[2]}
Bands(ff) == IF Mode = "laws" THEN AllBands ELSE RepBands(ff)

SortedSeq(S) == SetToSortSeq(S, LAMBDA x, y : x < y)
Grids == {SortedSeq(S) : S \in {T \in SUBSET FLattice : Cardinality(T) \in Sizes}}
Masks(n) == {m \in [1..n -> BOOLEAN] : Cardinality({j \in 1..n : m[j]}) <= MaxNan}

Init == f = <<0, 1>> /\ e = <<0, 0>> /\ nan = <<FALSE, FALSE>> /\ stage = "idle"
Next == \/ stage = "idle" /\ f' \in Grids /\ e' = e /\ nan' = nan /\ stage' = "grid"
        \/ stage = "grid" /\ f' = f /\ e' \in [1..N -> Vals] /\ nan' \in Masks(N) /\ stage' = "case"
Spec == Init /\ [][Next]_svars
Leaf == stage = "case"

Twice == [j \in 1..N |-> 2 * e[j]]
ERev == [j \in 1..N |-> e[N + 1 - j]]
NRev == [j \in 1..N |-> nan[N + 1 - j]]
ESum == [j \in 1..N |-> (IF nan[j] THEN 0 ELSE e[j]) + (IF NRev[j] THEN 0 ELSE ERev[j])]
NoNan == [j \in 1..N |-> FALSE]

Laws == Leaf => \A b \in Bands(f) :
    LET M(n) == Moment2(f, e, nan, n, b[1], b[2])
        S    == Sel(f, b[1], b[2])
    IN /\ \A n \in 0..4 : /\ Moment2(f, Twice, nan, n, b[1], b[2]) = 2 * M(n)                               \* scaling
                          /\ Moment2(f, ESum, NoNan, n, b[1], b[2]) = M(n) + Moment2(f, ERev, NRev, n, b[1], b[2])   \* sums
                          /\ M(n) >= 0
       /\ M(1) * M(1) <= M(0) * M(2)                                                                      \* Tm02 <= Tm01
       /\ (S # {} => f[Min(S)] * M(0) <= M(1) /\ M(1) <= f[Max(S)] * M(0))                                 \* period bounds
       /\ (Cardinality(S) < 2 => M(0) = 0)
       /\ (PeakDefined(f, e, nan, b[1], b[2]) =>
              LET p == PeakIdx(f, e, nan, b[1], b[2])
              IN p \in S /\ ~nan[p] /\ \A j \in S : (~nan[j] => e[j] <= e[p]) /\ (~nan[j] /\ e[j] = e[p] => j >= p))

BandSeq(ff) == SetToSeq(RepBands(ff))
Emit == (Leaf /\ Mode = "emit") =>
    PrintT("@@" \o ToJson([f |-> f, e |-> e, nan |-> [j \in 1..N |-> IF nan[j] THEN 1 ELSE 0],
        bands |-> [k \in 1..Len(BandSeq(f)) |->
            LET b == BandSeq(f)[k] IN
            [lo2 |-> b[1], hi2 |-> b[2],
             m |-> [n \in 1..5 |-> Moment2(f, e, nan, n - 1, b[1], b[2])],
             pk |-> IF PeakDefined(f, e, nan, b[1], b[2]) THEN PeakIdx(f, e, nan, b[1], b[2]) ELSE 0]]]))
================================================================================
