-------------------------------- MODULE Bracket --------------------------------
(***************************************************************************************)
(* Beyond the listed properties (check GRD): the index search every interpolation       *)
(* routine starts with, tools/grid.py enclosing_points_1d, and the midpoint-rule step   *)
(* midpoint_rule_step used when spectra are re-binned.                                  *)
(*                                                                                     *)
(* The module has two layers, as the other function-like specifications:                *)
(*  - an implementation-shaped transcription (the Impl operators): flip a descending grid into the   *)
(*    frame xp[1] - xp, reduce x modulo the period into [xp[1], xp[1]+P), insertion      *)
(*    index "side = right", the pair (s-1, s), wrapped modulo n (periodic) or clipped   *)
(*    to 0..n-1; the regular-grid fast path floor((x - xp[1]) / (xp[2] - xp[1]));       *)
(*  - property-level clauses (Encloses, Outside*, PeriodicEncloses) stated in the       *)
(*    ORIGINAL frame, which do not mention how the indices are found.                   *)
(* TLC checks the transcription against the clauses for every strictly monotone integer *)
(* grid of 2..MaxN points over 0..MaxV (both directions), every integer x in a window   *)
(* around it and every admissible period, and emits each case for the replay on the     *)
(* real function (exact in floating point: integers, and dyadic affine images of them). *)
(* Design = "left" (insertion index side = left: the node itself falls into the         *)
(* interval below it) must be rejected by Encloses (non-vacuity).                       *)
(* Indices are 0-based as in the code; sequences are 1-based.                           *)
(***************************************************************************************)
EXTENDS Integers, Sequences, FiniteSets, TLC, Json

CONSTANTS MaxN, MaxV, Margin, Design
VARIABLES xp, x, P            \* P = 0: not periodic

N == Len(xp)
At(g, i) == g[i + 1]           \* 0-based access

\* ---------------------------------------------------------------- transcription of the code
Descending(g) == g[Len(g)] < g[1]
Frame(g) == IF Descending(g) THEN [i \in 1..Len(g) |-> g[1] - g[i]] ELSE g
FrameX(g, v) == IF Descending(g) THEN g[1] - v ELSE v
Reduce(g, v, p) == IF p = 0 THEN v ELSE ((v - g[1]) % p) + g[1]
InsertRight(g, v) == Cardinality({i \in 1..Len(g) : g[i] <= v})
InsertLeft(g, v) == Cardinality({i \in 1..Len(g) : g[i] < v})
Insert(g, v) == IF Design = "left" THEN InsertLeft(g, v) ELSE InsertRight(g, v)
Clip(i, n) == IF i < 0 THEN 0 ELSE IF i > n - 1 THEN n - 1 ELSE i
Finish(s, n, p) == IF p = 0 THEN <<Clip(s - 1, n), Clip(s, n)>> ELSE <<(s - 1) % n, s % n>>
ImplGeneral(g, v, p) ==
    LET f == Frame(g)
        w == Reduce(f, FrameX(g, v), p)
    IN  Finish(Insert(f, w), Len(g), p)
ImplRegular(g, v, p) ==
    LET f == Frame(g)
        w == Reduce(f, FrameX(g, v), p)
        k == (w - f[1]) \div (f[2] - f[1])
    IN  Finish(k + 1, Len(g), p)

\* ---------------------------------------------------------------- property-level clauses
Lo(g) == IF Descending(g) THEN g[Len(g)] ELSE g[1]
Hi(g) == IF Descending(g) THEN g[1] ELSE g[Len(g)]
\* "before the first node" and "at or beyond the last node" in the direction of the grid
Before(g, v) == IF Descending(g) THEN v > g[1] ELSE v < g[1]
Beyond(g, v) == IF Descending(g) THEN v <= g[Len(g)] ELSE v >= g[Len(g)]
\* the pair r encloses v on the grid: consecutive, node i0 on or before v, node i1 strictly after (direction of the grid)
Encloses(g, v, r) ==
    /\ r[2] = r[1] + 1
    /\ IF Descending(g) THEN At(g, r[1]) >= v /\ v > At(g, r[2])
                        ELSE At(g, r[1]) <= v /\ v < At(g, r[2])
NonPeriodicOK(g, v, r) ==
    IF Before(g, v) THEN r = <<0, 0>>
    ELSE IF Beyond(g, v) THEN r = <<Len(g) - 1, Len(g) - 1>>
    ELSE Encloses(g, v, r)
\* periodic: some image v + m*p of v is enclosed by the pair, where the pair (n-1, 0) stands for the closing interval
\* from the last node to the first node of the next period
PeriodicOK(g, v, p, r) ==
    LET n == Len(g)
        d == IF Descending(g) THEN 0 - 1 ELSE 1                 \* direction of the grid
    IN  \E m \in (0 - (MaxV + 2 * Margin))..(MaxV + 2 * Margin) :
          LET u == v + m * p IN
          IF r[1] = n - 1 THEN r[2] = 0 /\ d * At(g, n - 1) <= d * u /\ d * u < d * At(g, 0) + p
          ELSE r[2] = r[1] + 1 /\ d * At(g, r[1]) <= d * u /\ d * u < d * At(g, r[2])
OK(g, v, p, r) == IF p = 0 THEN NonPeriodicOK(g, v, r) ELSE PeriodicOK(g, v, p, r)
Regular(g) == \A i \in 2..Len(g) : g[i] - g[i - 1] = g[2] - g[1]
Span(g) == Hi(g) - Lo(g)
Abs(a) == IF a < 0 THEN 0 - a ELSE a

\* midpoint rule: twice the step (integers), and what it has to satisfy
TwiceStep(g) == [i \in 1..Len(g) |->
    IF i = 1 THEN 2 * (g[2] - g[1]) ELSE IF i = Len(g) THEN 2 * (g[Len(g)] - g[Len(g) - 1]) ELSE g[i + 1] - g[i - 1]]
RECURSIVE SumSeq(_)
SumSeq(s) == IF s = <<>> THEN 0 ELSE Head(s) + SumSeq(Tail(s))

\* ---------------------------------------------------------------- state space: one case per state
Increasing == UNION {{s \in [1..n -> 0..MaxV] : \A i \in 2..n : s[i] > s[i - 1]} : n \in 2..MaxN}
Reverse(s) == [i \in 1..Len(s) |-> s[Len(s) + 1 - i]]
Grids == Increasing \cup {Reverse(s) : s \in Increasing}
Periods(g) == {0} \cup (Span(g) + 1)..(Span(g) + 3)

Init == /\ xp \in Grids
        /\ x \in (0 - Margin)..(MaxV + Margin)
        /\ P \in Periods(xp)
Next == UNCHANGED <<xp, x, P>>
Spec == Init /\ [][Next]_<<xp, x, P>>

\* ---------------------------------------------------------------- what TLC checks
GeneralMeetsClauses == OK(xp, x, P, ImplGeneral(xp, x, P))
\* the fast path is the same function on regular grids (periodic: when the period closes the grid, P = n * step)
FastPathAgrees == (Regular(xp) /\ (P = 0 \/ P = N * Abs(xp[2] - xp[1]))) => ImplRegular(xp, x, P) = ImplGeneral(xp, x, P)
\* a periodic result never depends on which image of x is asked for
ImageInvariant == P # 0 => ImplGeneral(xp, x + P, P) = ImplGeneral(xp, x, P) /\ ImplGeneral(xp, x - 2 * P, P) = ImplGeneral(xp, x, P)
\* midpoint rule: interior steps are half the distance between the neighbours, the steps of an ascending or descending
\* grid add up to the span plus half the first and half the last interval
MidpointSum == SumSeq(TwiceStep(xp)) = 2 * (xp[N] - xp[1]) + (xp[2] - xp[1]) + (xp[N] - xp[N - 1])
Emit == PrintT("@@" \o ToJson([xp |-> xp, x |-> x, P |-> P, r |-> ImplGeneral(xp, x, P), reg |-> Regular(xp) /\ (P = 0 \/ P = N * Abs(xp[2] - xp[1])),
                               step2 |-> TwiceStep(xp)]))
================================================================================
