---------------------------- MODULE DispersionTrace ----------------------------
(* Trace validation for C07.  The driver records executions of the real code; float comparisons are   *)
(* reduced to flags / signs by the driver (tolerances in DESIGN.md 9.7), the clauses are decided here. *)
(*  kind "call":  one solver call on n points: pos[p] (k finite and > 0), res[p] (relative residual   *)
(*                <= 1e-3), steps (Newton steps the model predicts for the measured levels lvl[p]),   *)
(*                same[p] (result equals the result of a call limited to `steps` steps)               *)
(*  kind "mono":  sg[i] = sign of out[i+1] - out[i] along an increasing input; dir = 1: strictly       *)
(*                increasing demanded, dir = -1: non-increasing demanded                               *)
(*  kind "flags": name, ok[p]: every flag must be 1 (asymptotes, group velocity, ratio range)          *)
(*  kind "accessor": dcls[i] depth class of leading point i, classes (list), match[i][c] = 1 iff row i *)
(*                of the accessor equals the function evaluated at depth class c                       *)
EXTENDS DispersionClauses, TLC, Json, IOUtils, SequencesExt
Recs == ndJsonDeserialize(IOEnv.TRACE_FILE)
VARIABLE i
Idx(seq, x) == CHOOSE k \in 1..Len(seq) : seq[k] = x
Bad(r) ==
  CASE r.kind = "call" ->
         (IF \A p \in 1..Len(r.pos) : r.pos[p] = 1 THEN {} ELSE {"Positive"})
           \cup (IF \A p \in 1..Len(r.res) : r.res[p] = 1 THEN {} ELSE {"Residual"})
    [] r.kind = "mono" ->
         (IF r.dir = 1 THEN (IF \A k \in 1..Len(r.sg) : r.sg[k] = 1 THEN {} ELSE {"IncreasingInFrequency"})
          ELSE (IF \A k \in 1..Len(r.sg) : r.sg[k] <= 0 THEN {} ELSE {"NonIncreasingInDepth"}))
    [] r.kind = "flags" -> (IF \A p \in 1..Len(r.ok) : r.ok[p] = 1 THEN {} ELSE {r.name})
    [] r.kind = "accessor" ->
         (IF \A k \in 1..Len(r.dcls) : r.match[k][Idx(r.classes, EffDepth(r.dcls[k]))] = 1 THEN {} ELSE {"IndexMap"})
    [] OTHER -> {"UnknownRecord"}
\* information, not a property clause: does the code step all points together as the model does?
Differs(r) == r.kind = "call" /\ \E p \in 1..Len(r.same) : r.same[p] = 0
\* vacuity of an accessor record: a row also matches a class it must not be confused with
Confusable(r) == r.kind = "accessor" /\ \E k \in 1..Len(r.dcls), c \in 1..Len(r.classes) :
                    r.classes[c] # EffDepth(r.dcls[k]) /\ r.match[k][c] = 1
TInit == i = 1
Step == /\ i <= Len(Recs)
        /\ LET r == Recs[i] B == Bad(r)
           IN IF B = {} /\ ~Differs(r) /\ ~Confusable(r) THEN TRUE
              ELSE PrintT("@@" \o ToJson([id |-> r.id, clauses |-> SetToSeq(B), differs |-> Differs(r), confusable |-> Confusable(r)]))
        /\ i' = i + 1
Done == i = Len(Recs) + 1 /\ PrintT("@@" \o ToJson([done |-> TRUE, consumed |-> Len(Recs)])) /\ i' = i + 1
TSpec == TInit /\ [][Step \/ Done]_i
================================================================================
