SPECIFICATION Spec
CONSTANTS
  N = 24
  VecLen = 7
INVARIANT Laws
CHECK_DEADLOCK FALSE
