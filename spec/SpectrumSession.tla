---------------------------- MODULE SpectrumSession ----------------------------
(***************************************************************************************)
(* C01 / C04 over a HISTORY of one spectrum object: queries (moments, peak) interleaved  *)
(* with the operations that change the object in place.  A query must describe the      *)
(* spectrum as it is NOW, whatever was asked and changed before.                        *)
(*                                                                                     *)
(*   f, e, nan   the object's current grid / values / missing mask (Spectrum1D.tla)      *)
(*   cache       what an implementation that memoises per band would hold                *)
(*   hist        the operations so far with the results the reference demands            *)
(*   last        the last query: returned and true result                                *)
(* Actions (one per public call):                                                        *)
(*   Query(b)        frequency_moment(0..2, band), peak_index(band)                      *)
(*   ScaleInplace(c) multiply(c, ["frequency"], inplace=True), c an integer vector       *)
(*   AssignRev       spec["variance_density"] = <reversed values>  (through __setitem__) *)
(*   FillNa          fillna(0)                                                           *)
(*   Copy            continue with spec.copy() (a new object)                            *)
(* Design = "fresh" recomputes on every query (the library); Design = "memo" returns a    *)
(* cached result and forgets to invalidate on ScaleInplace (non-vacuity variant).        *)
(***************************************************************************************)
EXTENDS MCSpectrum1D
CONSTANTS Design, MaxOps
VARIABLES cache, hist, last, e0, nan0
ssvars == <<f, e, nan, stage, cache, hist, last, e0, nan0>>

SBands == {<<0, Inf2>>, <<2 * f[2], 2 * f[N]>>, <<2 * f[1] + 1, Inf2>>}
True(b) == [m |-> [n \in 1..3 |-> Moment2(f, e, nan, n - 1, b[1], b[2])],
            pk |-> IF PeakDefined(f, e, nan, b[1], b[2]) THEN PeakIdx(f, e, nan, b[1], b[2]) ELSE 0]
FactorVecs == {[j \in 1..N |-> 2], [j \in 1..N |-> j], [j \in 1..N |-> N + 1 - j], [j \in 1..N |-> IF j = 1 THEN 0 ELSE 1]}
NoCache == [b \in {} |-> 0]

SInit == Init /\ cache = NoCache /\ hist = <<>> /\ last = [ret |-> 0, true |-> 0] /\ e0 = e /\ nan0 = nan
Setup == /\ stage # "case" /\ Next /\ cache' = cache /\ hist' = hist /\ last' = last
         /\ e0' = e' /\ nan0' = nan'
Room == stage = "case" /\ Len(hist) < MaxOps
Query(b) == /\ Room
            /\ LET t == True(b)
                   r == IF Design = "memo" /\ b \in DOMAIN cache THEN cache[b] ELSE t
               IN /\ last' = [ret |-> r, true |-> t]
                  /\ cache' = [x \in DOMAIN cache \cup {b} |-> IF x = b THEN r ELSE cache[x]]
                  /\ hist' = Append(hist, [op |-> "query", lo2 |-> b[1], hi2 |-> b[2], m |-> t.m, pk |-> t.pk])
            /\ UNCHANGED <<f, e, nan, stage, e0, nan0>>
ScaleInplace(c) == /\ Room
                   /\ e' = [j \in 1..N |-> e[j] * c[j]]
                   /\ hist' = Append(hist, [op |-> "scale", c |-> c])
                   /\ cache' = cache                                \* "memo" forgets to invalidate here
                   /\ UNCHANGED <<f, nan, stage, last, e0, nan0>>
AssignRev == /\ Room
             /\ e' = ERev /\ nan' = NRev
             /\ hist' = Append(hist, [op |-> "assign_rev"])
             /\ cache' = NoCache
             /\ UNCHANGED <<f, stage, last, e0, nan0>>
FillNa == /\ Room /\ \E j \in 1..N : nan[j]
          /\ e' = [j \in 1..N |-> IF nan[j] THEN 0 ELSE e[j]] /\ nan' = NoNan
          /\ hist' = Append(hist, [op |-> "fillna"])
          /\ cache' = NoCache
          /\ UNCHANGED <<f, stage, last, e0, nan0>>
Copy == /\ Room
        /\ hist' = Append(hist, [op |-> "copy"])
        /\ cache' = NoCache
        /\ UNCHANGED <<f, e, nan, stage, last, e0, nan0>>
SNext == Setup \/ (\E b \in SBands : Query(b)) \/ (\E c \in FactorVecs : ScaleInplace(c)) \/ AssignRev \/ FillNa \/ Copy
SSpec == SInit /\ [][SNext]_ssvars

QueriesFresh == last.ret = last.true
\* values stay small enough for 32-bit arithmetic in the moments
Bounded == stage = "case" => \A j \in 1..N : e[j] <= 3 * 16 * 16 * 16 * 16
Interesting == \E k \in 1..Len(hist) : hist[k].op = "query" /\ \E k2 \in (k + 1)..Len(hist) : hist[k2].op = "query"
EmitHist == (Len(hist) = MaxOps /\ Interesting) =>
               PrintT("@@" \o ToJson([f |-> f, e |-> e0, nan |-> [j \in 1..N |-> IF nan0[j] THEN 1 ELSE 0], hist |-> hist]))
================================================================================
