--------------------------- MODULE DirectionalTrace ---------------------------
(* Trace validation for C02: bin widths and e(f) recorded from the code on random integer-degree  *)
(* direction grids (any start index, any 360 degree window) re-derived with Directional.tla.      *)
EXTENDS MCDirectional, IOUtils
Recs == ndJsonDeserialize(IOEnv.TRACE_FILE)
VARIABLE i
tv == <<i, dir, D, nan, stage>>
StepsOf(r) == [j \in 1..Len(r.dir) |-> Step(r.dir, j)]
EOf(r) == SumOver(1..Len(r.dir), LAMBDA j : (IF r.nan[j] = 1 THEN 0 ELSE r.D[j]) * Step(r.dir, j))
TInit == i = 1 /\ dir = <<0, 120, 240>> /\ D = <<0, 0, 0>> /\ nan = <<FALSE, FALSE, FALSE>> /\ stage = "idle"
Step1 == /\ i <= Len(Recs)
         /\ LET r == Recs[i] IN
            /\ IF StepsOf(r) = r.step THEN TRUE
               ELSE PrintT("@@" \o ToJson([id |-> r.id, what |-> "bin widths", expect |-> StepsOf(r)]))
            /\ IF EOf(r) = r.E THEN TRUE
               ELSE PrintT("@@" \o ToJson([id |-> r.id, what |-> "e(f)", expect |-> <<EOf(r)>>]))
         /\ i' = i + 1 /\ UNCHANGED <<dir, D, nan, stage>>
Done == i = Len(Recs) + 1 /\ PrintT("@@" \o ToJson([done |-> TRUE, consumed |-> Len(Recs)])) /\ i' = i + 1 /\ UNCHANGED <<dir, D, nan, stage>>
TSpec == TInit /\ [][Step1 \/ Done]_tv
================================================================================
