SPECIFICATION Spec
CONSTANTS
  NPts = 3
  MaxIter = 10
  MaxLevel = 10
  Exit = "any"
  Emit = FALSE
INVARIANT TypeOK
INVARIANT Residual
INVARIANT InDomain
INVARIANT SameCount
PROPERTY NoRegress
CHECK_DEADLOCK FALSE
