SPECIFICATION Spec
CONSTANTS
  MinL = 8
  MaxL = 80
  Design = "head"
INVARIANT SameLength
INVARIANT NyquistIncluded
INVARIANT EvenLength
INVARIANT Emit
CHECK_DEADLOCK FALSE
