--------------------------- MODULE FileCacheClauses ---------------------------
(***************************************************************************************)
(* Property-level acceptance clauses of C18 / C19 over observable projections of a     *)
(* FileCache: pure operators, no variables.  Shared by the state machine FileCache.tla *)
(* (which evaluates them on its own transitions) and by FileCacheTrace.tla (which       *)
(* evaluates them on traces recorded from the real code).                              *)
(*                                                                                     *)
(* A projection is [open, entries, files, max, foreign]:                               *)
(*   entries  set of keys the cache object reports as cached                           *)
(*   files    [Key -> [st, t]]  the file under the cache-file name of each key:        *)
(*            st = "none" | "partial" | "raw" (complete, not post-processed) | "good" *)
(*            t  = logical time of last use, max(atime, mtime); 0 if none              *)
(*   max      configured maximum size, kB                                              *)
(*   foreign  "none" | "orig" | "changed" | "deleted"   a user file in the directory  *)
(***************************************************************************************)
EXTENDS Naturals, Sequences, FiniteSets, TLC, SequencesExt, FiniteSetsExt

CONSTANTS
    Key,            \* model keys (one per distinct unparsed URI incl. comment suffix)
    SizeKB          \* [Key -> Nat]  size of the resource behind each key, in kB

\* size on disk of the file named after key k in file map f
DiskKB(f, k) == CASE f[k].st = "none"    -> 0
                  [] f[k].st = "partial" -> SizeKB[k] \div 2
                  [] OTHER               -> SizeKB[k]

TotalKB(f, E) == FoldSet(LAMBDA k, acc : acc + DiskKB(f, k), 0, E)

Present(f) == {k \in Key : f[k].st # "none"}


(***************************************************************************************)
(* Property-level acceptance clauses.  Each returns the set of names of violated       *)
(* clauses.  P, Q: projections before / after; e: the call and what happened in it.    *)
(***************************************************************************************)

Failing(clauses) == {c[1] : c \in {d \in clauses : ~d[2]}}

\* entries that disappeared although they were neither rejected by validation nor failed
Evicted(P, Q, e) == ((P.entries \ e.rejected) \cup Range(e.paths)) \ Q.entries

(* e = [keys, result, paths, contacted, failed, rejected, clean]                       *)
(*   keys      requested keys, in order (a key may be listed more than once)           *)
(*   result    "ok" | "raised"                                                        *)
(*   paths     keys of the returned paths, in order (<<>> if raised)                   *)
(*   contacted keys for which the remote resource was contacted during the call        *)
(*   failed    keys whose fetch failed during the call (any fault kind)                *)
(*   rejected  requested keys whose cached copy the validation directive rejected      *)
(*   clean     no fault, crash or abandoned worker so far in this history              *)
(*   nozombie  no abandoned pool worker of an earlier request was alive during the call *)
GetClauses(P, e, Q) ==
  LET K      == Range(e.keys)
      hits   == {k \in K : k \in P.entries /\ k \notin e.rejected}
      ok     == e.result = "ok"
      ps     == Range(e.paths)
      evd    == Evicted(P, Q, e)
      others == Key \ K
  IN Failing({
    \* C18: every returned path exists and holds exactly the bytes of its resource;
    \* C19: no partially written / un-post-processed file is ever served
    <<"ServedExistsAndEqual", ok => \A k \in ps : Q.files[k].st = "good">>,
    \* C19: the request omits failed URIs or raises; without a failure it returns all, in order
    <<"PathsAreRequestedMinusFailed", ok => e.paths = SelectSeq(e.keys, LAMBDA k : k \notin e.failed)>>,
    <<"RaiseOnlyOnFailure", ~ok => e.failed # {}>>,
    \* C18: a cached URI is served without contacting the resource
    <<"HitNoContact", hits \cap e.contacted = {}>>,
    \* C19: a URI that is not cached (e.g. after a failed fetch) is fetched afresh
    <<"MissFetched", ok => \A k \in K : k \notin P.entries => k \in e.contacted>>,
    \* C19: a rejected entry is re-fetched rather than served
    <<"RejectedRefetched", ok => \A k \in e.rejected \cap P.entries : k \in e.contacted \/ k \notin ps>>,
    \* C19: a failed fetch is not registered and leaves no incomplete file under its cache name
    \* (a file that was already there, unregistered, and that the call left untouched is not the call's doing)
    <<"FailedNotRegistered", \A k \in e.failed : k \notin Q.entries /\
          (Q.files[k].st \in {"none", "good"} \/ (k \notin P.entries /\ Q.files[k].st = P.files[k].st))>>,
    <<"ReturnedAreEntries", ok => ps \subseteq Q.entries>>,
    \* C19: all other cached URIs remain intact (unless legitimately evicted by a successful request)
    <<"OthersIntact", \A k \in others \cap P.entries :
          \/ (k \in Q.entries /\ Q.files[k].st = P.files[k].st)
          \/ (ok /\ k \in evd /\ Q.files[k].st = "none")>>,
    <<"RequestedHitsIntact", \A k \in hits : ~ok => (k \in Q.entries /\ Q.files[k].st = P.files[k].st)>>,
    \* C18: size bound, enlarged only when a single request exceeds it
    <<"SizeBound", ok => TotalKB(Q.files, Q.entries) <= Q.max>>,
    <<"MaxNeverShrinks", Q.max >= P.max>>,
    <<"MaxGrowsOnlyForOversizeRequest", Q.max > P.max => (ok /\ TotalKB(Q.files, ps) > P.max)>>,
    \* C18: LRU eviction, never a file of the current request, nothing when everything fits
    <<"NoEvictionOfReturned", evd \cap ps = {}>>,
    <<"NoEvictionWhenFits", ok =>
          (TotalKB(P.files, (P.entries \ e.rejected) \ ps) + TotalKB(Q.files, ps) <= Q.max => evd = {})>>,
    <<"LruOrder", e.nozombie => \A x \in evd, s \in (Q.entries \ ps) \cap P.entries : P.files[x].t <= P.files[s].t>>,
    \* ... and only "until everything fits in the cache again": putting back the most recently used of the evicted files would
    \* exceed the size (an exactly full cache fits)
    <<"MinimalEviction", (ok /\ e.nozombie /\ evd # {}) =>
          \E x \in evd : /\ \A y \in evd : P.files[y].t <= P.files[x].t
                          /\ TotalKB(Q.files, Q.entries) + DiskKB(P.files, x) > Q.max>>,
    \* C18: entries = cache files on disk (fault-free histories); C19: never an entry without a file
    <<"EntriesEqualFiles", ok /\ e.clean => Q.entries = Present(Q.files)>>,
    <<"EntryHasFile", \A k \in Q.entries : Q.files[k].st # "none">>,
    <<"ForeignUntouched", Q.foreign = P.foreign>>
  })

(* e = [result, evict, clean]; P: projection of the directory before (closed session)  *)
OpenClauses(P, e, Q) ==
  LET adopted == Present(P.files)
      evd     == adopted \ Q.entries
  IN IF e.result # "ok" THEN Failing({<<"ForeignUntouched", Q.foreign = P.foreign>>,
                                      <<"RejectedOpenKeepsFiles", \A k \in Key : Q.files[k].st = P.files[k].st>>})
     ELSE Failing({
    <<"EntriesEqualFiles", Q.entries = Present(Q.files)>>,
    <<"OpenKeepsFiles", \A k \in Key : Q.files[k].st = P.files[k].st \/ (k \in evd /\ Q.files[k].st = "none")>>,
    <<"NoEvictionWhenFits", TotalKB(P.files, adopted) <= Q.max => evd = {}>>,
    <<"EvictOnlyOnRequest", ~e.evict => evd = {}>>,
    <<"SizeBound", TotalKB(Q.files, Q.entries) <= Q.max>>,
    <<"LruOrder", \A x \in evd, s \in Q.entries : P.files[x].t <= P.files[s].t>>,
    <<"MinimalEviction", evd # {} =>
          \E x \in evd : /\ \A y \in evd : P.files[y].t <= P.files[x].t
                          /\ TotalKB(Q.files, Q.entries) + DiskKB(P.files, x) > Q.max>>,
    <<"ForeignUntouched", Q.foreign = P.foreign>>
  })

(* e = [key] *)
RemoveClauses(P, e, Q) ==
  Failing({
    <<"RemoveDropsEntryAndFile", e.key \in P.entries => (e.key \notin Q.entries /\ Q.files[e.key].st = "none")>>,
    <<"OthersIntact", \A k \in P.entries \ {e.key} : k \in Q.entries /\ Q.files[k].st = P.files[k].st>>,
    <<"NoNewEntries", Q.entries \subseteq P.entries>>,
    <<"MaxUnchanged", Q.max = P.max>>,
    <<"ForeignUntouched", Q.foreign = P.foreign>>
  })

PurgeClauses(P, e, Q) ==
  Failing({
    <<"PurgeEmpties", Q.entries = {} /\ \A k \in P.entries : Q.files[k].st = "none">>,
    <<"MaxUnchanged", Q.max = P.max>>,
    <<"ForeignUntouched", Q.foreign = P.foreign>>
  })

C18Clauses == {"ServedExistsAndEqual", "HitNoContact", "ReturnedAreEntries", "SizeBound", "MaxNeverShrinks",
               "MaxGrowsOnlyForOversizeRequest", "NoEvictionOfReturned", "NoEvictionWhenFits", "LruOrder", "MinimalEviction",
               "EntriesEqualFiles", "ForeignUntouched", "OpenKeepsFiles", "EvictOnlyOnRequest",
               "RemoveDropsEntryAndFile", "NoNewEntries", "MaxUnchanged", "PurgeEmpties",
               "RejectedOpenKeepsFiles"}
C19Clauses == {"ServedExistsAndEqual", "PathsAreRequestedMinusFailed", "RaiseOnlyOnFailure", "MissFetched",
               "RejectedRefetched", "FailedNotRegistered", "OthersIntact", "RequestedHitsIntact", "EntryHasFile"}

================================================================================
