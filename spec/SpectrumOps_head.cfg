SPECIFICATION Spec
CONSTANTS
  MaxObj = 3
  NF = 3
  GenDepth = 4
  Variant = "head"
VIEW View
INVARIANT DeepIsFresh
INVARIANT RoundTrips
PROPERTY OperandsUnchanged
PROPERTY DeepCopyIsolated
CHECK_DEADLOCK FALSE
