SPECIFICATION TSpec
CONSTANTS
  Octants <- OctQ
  Fillers <- FillQ
  NOct = {3}
  NFill = {1}
  DVals = {0}
CHECK_DEADLOCK FALSE
