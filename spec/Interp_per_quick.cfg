SPECIFICATION Spec
CONSTANTS
  Lattice <- LatPQ
  Sizes = {4}
  Shifts <- ShiftP
  Targets <- TgtP
  P = 360
  MaskKind = "single"
INVARIANT NodeExact
INVARIANT Bounded
INVARIANT DirectionIndependent
INVARIANT Periodic
INVARIANT Emit
CHECK_DEADLOCK FALSE
