------------------------------- MODULE Angular -------------------------------
(***************************************************************************************)
(* C14, angular data: interpolation of angles (directions, longitudes; degrees) between *)
(* two values a and b at weight w = wn / wd, in exact integer / rational arithmetic.    *)
(*                                                                                     *)
(*   Arc(a, b)  the signed shorter arc from a to b, in [-180, 180)                      *)
(*   Linear interpolation along the shorter arc: a + w * Arc(a, b), reduced into        *)
(*   [lo, lo + 360) (lo = 0 for directions, -180 for longitudes).  When the two values  *)
(*   are exactly opposite (|arc| = 180) both arcs are acceptable.                       *)
(*   Vector averaging (unit vectors weighted 1-w and w): the result lies on the closed  *)
(*   shorter arc; it equals a at w = 0, b at w = 1 and the arc midpoint at w = 1/2;     *)
(*   unspecified for opposite values.                                                   *)
(*                                                                                     *)
(* TLC checks the laws the property states on the reference itself (end points, result *)
(* range, symmetry under exchanging the end points, invariance under rotating both      *)
(* values, invariance under adding whole periods to either value, never the long way)  *)
(* and emits cases; the seams 0/360 and +-180 are generated on purpose.                *)
(***************************************************************************************)
EXTENDS Integers, Sequences, FiniteSets, SequencesExt, TLC, Json

CONSTANTS Avals, Deltas, Weights      \* a; b = a + delta; weights <<wn, wd>>

VARIABLES a, b, w, stage
avars == <<a, b, w, stage>>

Abs(x) == IF x < 0 THEN -x ELSE x
RECURSIVE GCD(_, _)
GCD(x, y) == IF y = 0 THEN Abs(x) ELSE GCD(Abs(y), Abs(x) % Abs(y))
Norm(q) == LET d == GCD(q[1], q[2]) IN IF d = 0 THEN <<0, 1>> ELSE <<q[1] \div d, q[2] \div d>>

Arc(x, y) == ((y - x + 180) % 360) - 180
Arcs(x, y) == IF Arc(x, y) = -180 THEN {-180, 180} ELSE {Arc(x, y)}

\* reduce the rational num/den (den > 0) into [lo, lo + 360)
Reduce(num, den, lo) == Norm(<<((num - lo * den) % (360 * den)) + lo * den, den>>)

\* acceptable results of linear interpolation along the shorter arc
Linear(x, y, wn, wd, lo) == {Reduce(x * wd + wn * d, wd, lo) : d \in Arcs(x, y)}

\* vector averaging: [kind, ...]  "exact" value, or closed arc [from, length] that must contain it
Vector(x, y, wn, wd) ==
    LET d == Arc(x, y) IN
    IF d = -180 THEN [kind |-> "unspecified"]
    ELSE IF wn = 0 THEN [kind |-> "exact", val |-> Reduce(x, 1, 0)]
    ELSE IF wn = wd THEN [kind |-> "exact", val |-> Reduce(y, 1, 0)]
    ELSE IF 2 * wn = wd THEN [kind |-> "exact", val |-> Reduce(2 * x + d, 2, 0)]
    ELSE [kind |-> "arc", from |-> x % 360, len |-> d]

Init == a = 0 /\ b = 0 /\ w = <<0, 1>> /\ stage = "idle"
Next == \/ stage = "idle" /\ a' \in Avals /\ b' = 0 /\ w' = w /\ stage' = "a"
        \/ stage = "a" /\ \E d \in Deltas : b' = a + d
           /\ a' = a /\ w' \in Weights /\ stage' = "case"
Spec == Init /\ [][Next]_avars

Leaf == stage = "case"
InRange(q, lo) == q[1] >= lo * q[2] /\ q[1] < (lo + 360) * q[2]
Laws == Leaf =>
    /\ \A lo \in {0, 0 - 180} :
          /\ \A q \in Linear(a, b, w[1], w[2], lo) : InRange(q, lo)
          /\ Linear(a, b, 0, 1, lo) = {Reduce(a, 1, lo)}
          /\ Linear(a, b, 1, 1, lo) = {Reduce(b, 1, lo)}
          /\ Linear(b, a, w[2] - w[1], w[2], lo) = Linear(a, b, w[1], w[2], lo)          \* symmetry
          /\ Linear(a + 77, b + 77, w[1], w[2], lo) =
                {Reduce(q[1] + 77 * q[2], q[2], lo) : q \in Linear(a, b, w[1], w[2], lo)}  \* rotation
          /\ Linear(a + 360, b - 720, w[1], w[2], lo) = Linear(a, b, w[1], w[2], lo)      \* whole periods
    \* never the long way: the result is within |arc| of a (measured along the circle)
    /\ \A q \in Linear(a, b, w[1], w[2], 0) :
          LET off == Reduce(q[1] - a * q[2], q[2], 0 - 180) IN Abs(off[1]) <= 180 * off[2]

Emit == Leaf => PrintT("@@" \o ToJson([a |-> a, b |-> b, wn |-> w[1], wd |-> w[2],
                                      dir |-> SetToSeq(Linear(a, b, w[1], w[2], 0)),
                                      lon |-> SetToSeq(Linear(a, b, w[1], w[2], 0 - 180)),
                                      vec |-> Vector(a, b, w[1], w[2])]))
================================================================================
