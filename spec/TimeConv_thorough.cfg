SPECIFICATION Spec
CONSTANTS
  LastDay = 47846
  Offsets <- MCOffsets
  EmitYears <- MCAllYears
  EmitSods = {0, 86399}
  EmitUs = {0, 999999}
INVARIANT CalendarOK
INVARIANT OffsetsOK
INVARIANT PackedOK
INVARIANT Emit
CHECK_DEADLOCK FALSE
