SPECIFICATION Spec
CONSTANTS
  LastDay = 47846
  Offsets <- MCOffsets
  EmitYears <- MCAllYears
  EmitSods = {0, 86399}
  EmitUs = {0, 1, 5000, 99999, 125000, 999999}
INVARIANT CalendarOK
INVARIANT OffsetsOK
INVARIANT PackedOK
INVARIANT Emit
CHECK_DEADLOCK FALSE
