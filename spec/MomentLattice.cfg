SPECIFICATION Spec
CONSTANTS
  Q = 20
  P1 <- MCP1
  P2 <- MCP2
INVARIANT Emit
INVARIANT Sanity
CHECK_DEADLOCK FALSE
