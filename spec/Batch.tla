--------------------------------- MODULE Batch ---------------------------------
(***************************************************************************************)
(* Batch structure used by C05 / C08 / C10 / C11: a batch of shape (nt, nx, nf) (or a   *)
(* prefix of it) is a re-arrangement of one flat list of K = nt*nx*nf items, in C order; *)
(* "each element of a batch gets the result it would get alone" means the result array  *)
(* is the same re-arrangement of the list of single results.                            *)
(* TLC checks that the index maps of the four supported shapes - (), (nf), (nt, nf),    *)
(* (nt, nx, nf) - are bijections onto 0..K-1, agree with the two-step reshape the code   *)
(* uses ([leading..., nf] -> [prod(leading), nf]), and that permuting / splitting the    *)
(* leading index commutes with the map.  Emit prints the maps for the driver.           *)
(***************************************************************************************)
EXTENDS Integers, Sequences, FiniteSets, TLC, Json

CONSTANTS MaxT, MaxX, MaxF
VARIABLES nt, nx, nf
bvars == <<nt, nx, nf>>

Flat3(t, x, f) == (t * nx + x) * nf + f                 \* C order over (nt, nx, nf)
Lead(t, x) == t * nx + x                                \* the code first flattens the leading dimensions
Flat2(l, f) == l * nf + f
K == nt * nx * nf

Init == nt \in 1..MaxT /\ nx \in 1..MaxX /\ nf \in 1..MaxF
Next == UNCHANGED bvars
Spec == Init /\ [][Next]_bvars

Bijective == {Flat3(t, x, f) : t \in 0..(nt - 1), x \in 0..(nx - 1), f \in 0..(nf - 1)} = 0..(K - 1)
TwoStep == \A t \in 0..(nt - 1), x \in 0..(nx - 1), f \in 0..(nf - 1) : Flat2(Lead(t, x), f) = Flat3(t, x, f)
\* splitting a batch at time index s gives the two halves of the flat list
Split == \A s \in 0..nt : \A t \in 0..(nt - 1), x \in 0..(nx - 1), f \in 0..(nf - 1) :
            (t < s) <=> (Flat3(t, x, f) < s * nx * nf)
Emit == PrintT("@@" \o ToJson([nt |-> nt, nx |-> nx, nf |-> nf,
                              map |-> [t \in 1..nt |-> [x \in 1..nx |-> [f \in 1..nf |-> Flat3(t - 1, x - 1, f - 1)]]]]))
================================================================================
