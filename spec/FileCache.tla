------------------------------- MODULE FileCache -------------------------------
(***************************************************************************************)
(* Model of ocean_science_utilities.filecache.cache_object.FileCache (properties C18,   *)
(* C19).                                                                               *)
(*                                                                                     *)
(* Two layers live in this module:                                                     *)
(*                                                                                     *)
(*  1. An implementation-shaped state machine: one action per critical section of the  *)
(*     code (Open, BeginGet, the stages of _worker per cache miss, FinishGet, RaiseGet, *)
(*     zombie pool workers, Remove, Purge, Crash, environment actions).  Variant =     *)
(*     "fixed" is the code as repaired (temp file + os.replace, hits are touched, a    *)
(*     rejected entry is dropped); Variant = "head" is the code as found (used to show *)
(*     that the properties are not vacuous: TLC finds the defects D2, D3, D4).         *)
(*                                                                                     *)
(*  2. Property-level acceptance clauses (GetClauses, OpenClauses, ...): predicates    *)
(*     over (projection before a public call, the call with what the environment did,  *)
(*     projection after).  They say only what C18/C19 say and leave the implementation *)
(*     every freedom the properties leave (new maximum size, evicting more than the    *)
(*     minimum, ...).  The model evaluates them on its own transitions (history        *)
(*     variables pre/viol; INVARIANT NoViolation...), and FileCacheTrace.tla evaluates *)
(*     the very same operators on traces recorded from the real code.                  *)
(***************************************************************************************)
EXTENDS FileCacheClauses      \* Key, SizeKB, the projection vocabulary and the C18/C19 clauses

CONSTANTS
    PPKeys,         \* keys that are requested with a postprocess directive
    ValKeys,        \* keys that are requested with a validate directive
    Limits,         \* initial maximum sizes (kB) a cache may be created with
    MB,             \* the enlargement margin (kB) the code adds (1000)
    MaxFaults,      \* bound on injected faults per behaviour
    MaxReqLen,      \* bound on keys per request
    Chunked,     \* TRUE: workers of a parallel request interleave freely and may be abandoned
                    \* (ThreadPool with several chunks); FALSE: one chunk = sequential order
    Variant         \* "fixed" | "head"

ASSUME Variant \in {"fixed", "noprotect", "head"}

VARIABLES
    files,      \* [Key -> [st, t]]  the file under the cache-file name of each key
                \*    st: "none" | "partial" | "raw" (complete, not post-processed) | "good"
                \*    t : logical time of last use  max(atime, mtime); 0 if none
    foreign,    \* "none" | "orig"  a user file in the cache directory
    cfgfile,    \* persisted configuration [exists, max, par, am]
    sess,       \* the FileCache object [open, entries, max, par, am]
    req,        \* request in progress [active, keys, misses, touched]
    dl,         \* [Key -> [s, t, plan]] download state of the misses of the active request
    zl,         \* [Key -> [s, t, plan]] pool workers that outlived a request that raised
    nfaults,    \* faults injected so far
    rejects,    \* keys whose cached copy the validation function currently rejects
    clean,      \* no fault / crash / zombie so far in this behaviour
    pre,        \* projection at the start of the public call in progress (history)
    ev,         \* what the environment did during the call in progress (history)
    viol        \* names of the property clauses violated by the last completed call

vars == <<files, foreign, cfgfile, sess, req, dl, zl, nfaults, rejects, clean, pre, ev, viol>>

--------------------------------------------------------------------------------
(* Basic definitions *)

NoFile   == [st |-> "none", t |-> 0]
Idle     == [s |-> "idle", t |-> 0, plan |-> "ok"]
Closed   == [open |-> FALSE, entries |-> {}, max |-> 0, par |-> FALSE, am |-> FALSE]
NoReq    == [active |-> FALSE, keys |-> <<>>, misses |-> <<>>]
NoEv     == [contacted |-> {}, failed |-> {}, rejected |-> {}, nozombie |-> TRUE]
FinalStages == {"done", "nf", "io", "idle"}
Running(d)  == d.s \notin FinalStages

Max0(S) == IF S = {} THEN 0 ELSE Max(S)

\* every logical time stamp in use; a fresh one is larger than all of them
AllStamps == {files[k].t : k \in Key} \cup {dl[k].t : k \in Key} \cup {zl[k].t : k \in Key}
              \cup {pre.files[k].t : k \in Key}
Fresh == 1 + Max0(AllStamps)

\* what the code's _cache_eviction does: delete least recently used entries until it fits
RECURSIVE EvictSet(_, _, _)
EvictSet(f, E, mx) ==
    IF E = {} \/ TotalKB(f, E) <= mx THEN {}
    ELSE LET o == CHOOSE k \in E : \A j \in E : f[j].t >= f[k].t
         IN {o} \cup EvictSet(f, E \ {o}, mx)

\* the observable projection of a state (what the harness records after every public call)
Proj(s, f, fo) == [open |-> s.open, entries |-> s.entries, files |-> f, max |-> s.max, foreign |-> fo]

Seqs(S, n) == UNION {[1..m -> S] : m \in 1..n}
DistinctSeqs(S, n) == {q \in Seqs(S, n) : \A i, j \in DOMAIN q : i # j => q[i] # q[j]}

--------------------------------------------------------------------------------
--------------------------------------------------------------------------------
(* The implementation-shaped state machine *)

Init ==
    /\ files = [k \in Key |-> NoFile]
    /\ foreign = "none"
    /\ cfgfile = [exists |-> FALSE, max |-> 0, par |-> FALSE, am |-> FALSE]
    /\ sess = Closed
    /\ req = NoReq
    /\ dl = [k \in Key |-> Idle]
    /\ zl = [k \in Key |-> Idle]
    /\ nfaults = 0
    /\ rejects = {}
    /\ clean = TRUE
    /\ pre = Proj(Closed, [k \in Key |-> NoFile], "none")
    /\ ev = NoEv
    /\ viol = {}

Quiet == sess.open /\ ~req.active

(* FileCache(path, size, evict_on_startup, parallel, allow_missing): a persisted config wins over
   the arguments; every file matching the cache-file pattern is adopted. *)
Open(lim, par, am, evict) ==
    /\ ~sess.open /\ ~req.active
    /\ LET c       == IF cfgfile.exists THEN cfgfile
                      ELSE [exists |-> TRUE, max |-> lim, par |-> par, am |-> am]
           adopted == Present(files)
           toobig  == TotalKB(files, adopted) > c.max
           evd     == IF evict THEN EvictSet(files, adopted, c.max) ELSE {}
           P       == Proj(Closed, files, foreign)
       IN /\ cfgfile' = c
          /\ IF toobig /\ ~evict
             THEN /\ sess' = Closed /\ files' = files
                  /\ viol' = OpenClauses(P, [result |-> "rejected", evict |-> evict], Proj(Closed, files, foreign))
             ELSE /\ sess' = [open |-> TRUE, entries |-> adopted \ evd, max |-> c.max, par |-> c.par, am |-> c.am]
                  /\ files' = [k \in Key |-> IF k \in evd THEN NoFile ELSE files[k]]
                  /\ viol' = OpenClauses(P, [result |-> "ok", evict |-> evict], Proj(sess', files', foreign))
    /\ pre' = Proj(Closed, files, foreign)
    /\ UNCHANGED <<foreign, req, dl, zl, nfaults, rejects, clean, ev>>

(* cache[keys], part 1: get_cache_misses. Hits are validated (if the key carries a validate
   directive) and touched; everything else becomes a miss. *)
RECURSIVE Scan(_, _, _, _, _)
\* returns [f, entries, misses, rejected] after processing keys[i..]
Scan(keys, i, f, E, acc) ==
    IF i > Len(keys) THEN [f |-> f, entries |-> E, misses |-> acc.misses, rejected |-> acc.rejected]
    ELSE LET k == keys[i] IN
         IF k \in E /\ ~(k \in ValKeys /\ k \in rejects)
         THEN \* valid hit: touch (fixed); head never touched hits
              LET stamp == 1 + Max0(AllStamps \cup {f[j].t : j \in Key})
                  f2 == IF Variant # "head" /\ f[k].st # "none"
                        THEN [f EXCEPT ![k].t = stamp] ELSE f
              IN Scan(keys, i + 1, f2, E, acc)
         ELSE IF k \in E
         THEN \* rejected by its validation directive: file removed; fixed also drops the entry
              LET f2 == [f EXCEPT ![k] = NoFile]
                  E2 == IF Variant # "head" THEN E \ {k} ELSE E
              IN Scan(keys, i + 1, f2, E2, [misses |-> Append(acc.misses, k), rejected |-> acc.rejected \cup {k}])
         ELSE Scan(keys, i + 1, f, E, [misses |-> Append(acc.misses, k), rejected |-> acc.rejected])

BeginGet(keys) ==
    /\ Quiet
    /\ LET r == Scan(keys, 1, files, sess.entries, [misses |-> <<>>, rejected |-> {}])
       IN /\ files' = r.f
          /\ sess' = [sess EXCEPT !.entries = r.entries]
          /\ req' = [active |-> TRUE, keys |-> keys, misses |-> r.misses]
          /\ dl' = [k \in Key |-> IF k \in Range(r.misses) THEN [s |-> "todo", t |-> 0, plan |-> "ok"] ELSE Idle]
          /\ ev' = [contacted |-> {}, failed |-> {}, rejected |-> r.rejected,
                    nozombie |-> \A k \in Key : zl[k].s = "idle"]
    /\ pre' = Proj(sess, files, foreign)
    /\ viol' = {}
    /\ UNCHANGED <<foreign, cfgfile, zl, nfaults, rejects, clean>>

Outcomes(k) == {"ok"} \cup (IF nfaults < MaxFaults
                            THEN {"nf", "io_pre", "io_mid"} \cup (IF k \in PPKeys THEN {"pp_fail"} ELSE {})
                            ELSE {})

(* One stage of _worker for key k on download record d, file map f.  Returns the set of possible
   [d, f, fault, contact] results.  Variant "head" writes at the final name; "fixed" writes a
   temporary file and renames it on success. *)
StepResults(k, d, f) ==
    LET stamp == 1 + Max0(AllStamps \cup {f[j].t : j \in Key})
        W(st) == IF Variant = "head" THEN [f EXCEPT ![k] = [st |-> st, t |-> stamp]] ELSE f
    IN
    CASE d.s = "todo" ->
           { IF o \in {"nf", "io_pre"}
             THEN [d |-> [s |-> IF o = "nf" THEN "nf" ELSE "io", t |-> 0, plan |-> o], f |-> f,
                   fault |-> 1, contact |-> TRUE]
             ELSE [d |-> [s |-> "partial", t |-> stamp, plan |-> o], f |-> W("partial"),
                   fault |-> IF o = "ok" THEN 0 ELSE 1, contact |-> TRUE]
             : o \in Outcomes(k) }
      [] d.s = "partial" ->
           { IF d.plan = "io_mid"
             THEN [d |-> [d EXCEPT !.s = "io"], f |-> f, fault |-> 0, contact |-> FALSE]
             ELSE [d |-> [d EXCEPT !.s = IF k \in PPKeys THEN "written" ELSE "posted", !.t = stamp],
                   f |-> W(IF k \in PPKeys THEN "raw" ELSE "good"), fault |-> 0, contact |-> FALSE] }
      [] d.s = "written" ->
           { IF d.plan = "pp_fail"
             THEN [d |-> [d EXCEPT !.s = "io"], f |-> f, fault |-> 0, contact |-> FALSE]
             ELSE [d |-> [d EXCEPT !.s = "posted", !.t = stamp], f |-> W("good"), fault |-> 0, contact |-> FALSE] }
      [] d.s = "posted" ->
           { [d |-> [d EXCEPT !.s = "done"],
              f |-> IF Variant # "head" THEN [f EXCEPT ![k] = [st |-> "good", t |-> d.t]] ELSE f,
              fault |-> 0, contact |-> FALSE] }
      [] OTHER -> {}

RaisingFailure(k) == dl[k].s = "io" \/ (dl[k].s = "nf" /\ ~sess.am)
MissIdx == DOMAIN req.misses
\* the position (in miss order) of the first failure that makes the request raise, 0 if none
FirstRaising == LET S == {i \in MissIdx : RaisingFailure(req.misses[i])} IN IF S = {} THEN 0 ELSE Min(S)
Parallel == Chunked /\ sess.par /\ Len(req.misses) > 1

\* which miss may take its next step
MayStep(i) ==
    /\ Running(dl[req.misses[i]])
    /\ IF Parallel THEN TRUE            \* workers of different chunks interleave freely
       ELSE /\ \A j \in MissIdx : j < i => ~Running(dl[req.misses[j]])
            /\ FirstRaising = 0          \* sequential map stops at the first exception

DlStep(i) ==
    /\ req.active /\ i \in MissIdx /\ MayStep(i)
    /\ LET k == req.misses[i] IN
       \E r \in StepResults(k, dl[k], files) :
          /\ dl' = [dl EXCEPT ![k] = r.d]
          /\ files' = r.f
          /\ nfaults' = nfaults + r.fault
          /\ clean' = (clean /\ r.fault = 0)
          /\ ev' = [ev EXCEPT !.contacted = IF r.contact THEN @ \cup {k} ELSE @,
                              !.failed = IF r.d.s \in {"nf", "io"} THEN @ \cup {k} ELSE @]
          /\ rejects' = IF r.d.s = "done" THEN rejects \ {k} ELSE rejects
    /\ UNCHANGED <<foreign, cfgfile, sess, req, zl, pre, viol>>

(* cache[keys], part 2: every miss finished and nothing raised *)
FinishGet ==
    /\ req.active
    /\ \A i \in MissIdx : ~Running(dl[req.misses[i]])
    /\ FirstRaising = 0
    /\ LET okk    == {k \in Range(req.misses) : dl[k].s = "done"}
           bad    == Range(req.misses) \ okk
           paths  == SelectSeq(req.keys, LAMBDA k : k \notin bad)
           E1     == sess.entries \cup okk
           need   == TotalKB(files, Range(paths))
           newmax == IF need > sess.max THEN need + MB ELSE sess.max
           \* "fixed": files returned by this request are never candidates for eviction
           prot   == IF Variant = "fixed" THEN Range(paths) ELSE {}
           evd    == IF req.misses # <<>>
                     THEN EvictSet(files, E1 \ prot, newmax - TotalKB(files, prot)) ELSE {}
           e      == [keys |-> req.keys, result |-> "ok", paths |-> paths, contacted |-> ev.contacted,
                      failed |-> ev.failed, rejected |-> ev.rejected, clean |-> clean, nozombie |-> ev.nozombie]
       IN /\ sess' = [sess EXCEPT !.entries = E1 \ evd, !.max = newmax]
          /\ files' = [k \in Key |-> IF k \in evd THEN NoFile ELSE files[k]]
          /\ cfgfile' = [cfgfile EXCEPT !.max = newmax]
          /\ viol' = GetClauses(pre, e, Proj(sess', files', foreign))
    /\ req' = NoReq
    /\ dl' = [k \in Key |-> Idle]
    /\ UNCHANGED <<foreign, zl, nfaults, rejects, clean, pre, ev>>

(* cache[keys] raises: the first raising failure (in miss order) has been reached by the consumer
   of the result iterator.  In parallel mode the other workers may be abandoned mid-flight
   ("zombies": ThreadPool.__exit__ cannot stop running threads) or never start. *)
RaiseGet ==
    /\ req.active /\ FirstRaising # 0
    /\ \A j \in MissIdx : j < FirstRaising => ~Running(dl[req.misses[j]])
    /\ \E Z \in SUBSET {k \in Range(req.misses) : Running(dl[k]) /\ zl[k].s = "idle"} :
          /\ (~Parallel => Z = {})
          /\ zl' = [k \in Key |-> IF k \in Z THEN dl[k] ELSE zl[k]]
          /\ clean' = (clean /\ Z = {})
    /\ LET e == [keys |-> req.keys, result |-> "raised", paths |-> <<>>, contacted |-> ev.contacted,
                 failed |-> ev.failed, rejected |-> ev.rejected, clean |-> clean, nozombie |-> ev.nozombie]
       IN viol' = GetClauses(pre, e, Proj(sess, files, foreign))
    /\ req' = NoReq
    /\ dl' = [k \in Key |-> Idle]
    /\ UNCHANGED <<files, foreign, cfgfile, sess, nfaults, rejects, pre, ev>>

(* an abandoned pool worker takes its next step (no fault injection in zombies) *)
ZombieStep(k) ==
    /\ sess.open /\ Running(zl[k])
    /\ \E r \in {x \in StepResults(k, zl[k], files) : x.fault = 0} :
          /\ zl' = [zl EXCEPT ![k] = IF r.d.s \in FinalStages THEN Idle ELSE r.d]
          /\ files' = r.f
    /\ viol' = {}
    /\ UNCHANGED <<foreign, cfgfile, sess, req, dl, nfaults, rejects, clean, pre, ev>>

RemoveKey(k) ==
    /\ Quiet
    /\ LET P == Proj(sess, files, foreign) IN
       /\ IF k \in sess.entries
          THEN /\ sess' = [sess EXCEPT !.entries = @ \ {k}]
               /\ files' = [files EXCEPT ![k] = NoFile]
          ELSE UNCHANGED <<sess, files>>
       /\ viol' = RemoveClauses(P, [key |-> k], Proj(sess', files', foreign))
       /\ pre' = P
    /\ UNCHANGED <<foreign, cfgfile, req, dl, zl, nfaults, rejects, clean, ev>>

Purge ==
    /\ Quiet
    /\ LET P == Proj(sess, files, foreign) IN
       /\ sess' = [sess EXCEPT !.entries = {}]
       /\ files' = [k \in Key |-> IF k \in sess.entries THEN NoFile ELSE files[k]]
       /\ viol' = PurgeClauses(P, [x |-> 0], Proj(sess', files', foreign))
       /\ pre' = P
    /\ UNCHANGED <<foreign, cfgfile, req, dl, zl, nfaults, rejects, clean, ev>>

(* environment *)
UserTouch(k) ==
    /\ Quiet /\ files[k].st # "none"
    /\ \E j \in Key : j # k /\ files[j].st # "none" /\ files[j].t > files[k].t   \* only if it changes the order
    /\ files' = [files EXCEPT ![k].t = Fresh]
    /\ viol' = {}
    /\ UNCHANGED <<foreign, cfgfile, sess, req, dl, zl, nfaults, rejects, clean, pre, ev>>

Invalidate(k) ==
    /\ Quiet /\ k \in ValKeys /\ k \in sess.entries /\ k \notin rejects
    /\ rejects' = rejects \cup {k}
    /\ viol' = {}
    /\ UNCHANGED <<files, foreign, cfgfile, sess, req, dl, zl, nfaults, clean, pre, ev>>

ForeignCreate ==
    /\ foreign = "none" /\ ~req.active
    /\ foreign' = "orig"
    /\ viol' = {}
    /\ UNCHANGED <<files, cfgfile, sess, req, dl, zl, nfaults, rejects, clean, pre, ev>>

(* the process dies (or the object is dropped): memory is lost, the directory stays.  Enabled in
   every state in which a session exists, in particular between any two download stages. *)
Crash ==
    /\ sess.open
    /\ sess' = Closed
    /\ req' = NoReq
    /\ dl' = [k \in Key |-> Idle]
    /\ zl' = [k \in Key |-> Idle]
    /\ rejects' = {}
    /\ clean' = (clean /\ ~req.active)
    /\ viol' = {}
    /\ UNCHANGED <<files, foreign, cfgfile, nfaults, pre, ev>>

Next ==
    \/ \E lim \in Limits, par, am, evict \in BOOLEAN : Open(lim, par, am, evict)
    \/ \E keys \in DistinctSeqs(Key, MaxReqLen) : BeginGet(keys)
    \/ \E i \in 1..MaxReqLen : DlStep(i)
    \/ FinishGet
    \/ RaiseGet
    \/ \E k \in Key : ZombieStep(k) \/ RemoveKey(k) \/ UserTouch(k) \/ Invalidate(k)
    \/ Purge
    \/ ForeignCreate
    \/ Crash

Spec == Init /\ [][Next]_vars

--------------------------------------------------------------------------------
(* Invariants: one per clause family, so that a counterexample names the property *)

NoC18Violation == viol \cap C18Clauses = {}
NoC19Violation == viol \cap C19Clauses = {}
NoViolation    == viol = {}

\* state invariants that do not go through the clauses
EntryHasFileAlways == sess.open /\ ~req.active => \A k \in sess.entries : files[k].st # "none"
FinalFilesGood     == Variant # "head" => \A k \in Key : files[k].st \in {"none", "good"}
ForeignSafe        == foreign \in {"none", "orig"}
QuietSizeBound     == (Quiet /\ clean) => TotalKB(files, sess.entries) <= sess.max

MaxMonotone == [][(sess.open /\ sess'.open) => sess'.max >= sess.max]_vars

(* VIEW: logical time stamps matter only through their order; identify states whose stamps are
   order-isomorphic.  This makes the reachable state space finite without bounding a clock. *)
Rank(x) == IF x = 0 THEN 0 ELSE Cardinality({y \in AllStamps : y # 0 /\ y <= x})
NormF(f) == [k \in Key |-> [st |-> f[k].st, t |-> Rank(f[k].t)]]
NormD(d) == [k \in Key |-> [s |-> d[k].s, t |-> Rank(d[k].t), plan |-> d[k].plan]]
View == <<NormF(files), foreign, cfgfile, sess, req, NormD(dl), NormD(zl), nfaults, rejects, clean,
          [pre EXCEPT !.files = NormF(pre.files)], ev, viol>>
================================================================================
