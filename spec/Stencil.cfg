SPECIFICATION Spec
CONSTANT MaxOrder = 8
INVARIANT Inv
CHECK_DEADLOCK FALSE
