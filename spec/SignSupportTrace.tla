---------------------------- MODULE SignSupportTrace ----------------------------
(* Trace validation for C08 / C10 / C11.  Records:                                                  *)
(*  kind "support": period P, dir and w (wind direction) as integers in units of 360/P degrees, en[f][j] (1 = energy), inp[f][j],      *)
(*                  dis[f][j] (observed signs -1/0/1 of wind input and dissipation)                   *)
(*  kind "root":    sg (signs of the scanned function), res (0 = missing / cell index), finite (1 =   *)
(*                  the property demands a finite result)                                            *)
EXTENDS SignSupport, Json, IOUtils, SequencesExt
Recs == ndJsonDeserialize(IOEnv.TRACE_FILE)
VARIABLE i
BadSupport(r) == {<<f, j>> \in (1..Len(r.en)) \X (1..Len(r.dir)) :
                     \/ r.inp[f][j] \notin InputSigns(r.dir[j], r.w, r.en[f][j] = 1, r.period)
                     \/ r.dis[f][j] \notin DissSigns(r.en[f][j] = 1)}
\*  kind "mask":  inm / outm (0/1 per element): a missing input gives a missing output and nothing else is missing
\*  kind "mono":  rk = ranks of the outputs listed in increasing order of the inputs: must be strictly increasing
Bad(r) == CASE r.kind = "support" -> (IF BadSupport(r) = {} THEN {} ELSE {"SignSupport"})
            [] r.kind = "root"    -> (IF RootOK(r.sg, r.res, r.finite = 1) THEN {} ELSE {"RootCell"})
            [] r.kind = "mask"    -> (IF r.inm = r.outm THEN {} ELSE {"MissingPropagation"})
            [] r.kind = "mono"    -> (IF \A k \in 1..(Len(r.rk) - 1) : r.rk[k] < r.rk[k + 1] THEN {} ELSE {"Monotone"})
            [] OTHER -> {"UnknownRecord"}
TInit == i = 1
Step == /\ i <= Len(Recs)
        /\ LET r == Recs[i] B == Bad(r)
           IN IF B = {} THEN TRUE
              ELSE PrintT("@@" \o ToJson([id |-> r.id, clauses |-> SetToSeq(B),
                            bins |-> IF r.kind = "support" THEN SetToSeq(BadSupport(r)) ELSE <<>>,
                            cell |-> IF r.kind = "root" /\ SingleRoot(r.sg) THEN RootCell(r.sg) ELSE 0]))
        /\ i' = i + 1
Done == i = Len(Recs) + 1 /\ PrintT("@@" \o ToJson([done |-> TRUE, consumed |-> Len(Recs)])) /\ i' = i + 1
TSpec == TInit /\ [][Step \/ Done]_i
================================================================================
