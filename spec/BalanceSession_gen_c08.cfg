SPECIFICATION Spec
CONSTANTS
  Specs <- SpecSet
  Shape <- ShapeOf
  Winds = {"w1", "w2"}
  ParamSets = {"p0", "p1"}
  Ops = {"rate", "diss", "bulk", "imbalance"}
  Design = "fresh"
  MaxOps = 7
INVARIANT QueriesFresh
INVARIANT Emit
CHECK_DEADLOCK FALSE
