----------------------------- MODULE InterpTrace -----------------------------
(* Trace validation for C13 / C14 (coordinate part): interpolations recorded from the real code on  *)
(* random non-uniform grids are judged by the reference operator Accept of Interp.tla.              *)
(* record: xp, nan (0/1), f (integer data), mode, x (integer targets), got[k] = <<"nan">> or        *)
(* <<"val", num, den>> (the code's float converted to the rational it is within 1e-9 of).           *)
EXTENDS MCInterp, IOUtils

Recs == ndJsonDeserialize(IOEnv.TRACE_FILE)
VARIABLE i
tv == <<i, g, mode>>
GOf(r) == [xp |-> r.xp, nan |-> [j \in 1..Len(r.nan) |-> r.nan[j] = 1]]
Bad(r) == {k \in 1..Len(r.x) : LET got == IF r.got[k][1] = "nan" THEN <<"nan">>
                                            ELSE <<"val">> \o Norm(<<r.got[k][2], r.got[k][3]>>)
                               IN got \notin Accept(GOf(r), LAMBDA j : r.f[j], r.mode, r.x[k])}
TInit == i = 1 /\ g = Idle /\ mode = "idle"
Step == /\ i <= Len(Recs)
        /\ LET r == Recs[i]
               B == Bad(r)
           IN IF B = {} THEN TRUE
              ELSE PrintT("@@" \o ToJson([id |-> r.id, bad |-> SetToSeq(B),
                                          expect |-> [k \in 1..Len(r.x) |-> IF k \in B THEN SetToSeq(Accept(GOf(r), LAMBDA j : r.f[j], r.mode, r.x[k])) ELSE <<>>]]))
        /\ i' = i + 1 /\ UNCHANGED <<g, mode>>
Done == i = Len(Recs) + 1 /\ PrintT("@@" \o ToJson([done |-> TRUE, consumed |-> Len(Recs)])) /\ i' = i + 1 /\ UNCHANGED <<g, mode>>
TSpec == TInit /\ [][Step \/ Done]_tv
================================================================================
