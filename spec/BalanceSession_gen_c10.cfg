SPECIFICATION Spec
CONSTANTS
  Specs <- SpecSet
  Shape <- ShapeOf
  Winds = {"w1", "w2"}
  ParamSets = {"p0", "p1"}
  Ops = {"roughness"}
  Design = "fresh"
  MaxOps = 6
INVARIANT QueriesFresh
INVARIANT Emit
CHECK_DEADLOCK FALSE
