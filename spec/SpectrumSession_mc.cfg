SPECIFICATION SSpec
CONSTANTS
  FLattice <- LatE
  Sizes = {3}
  Vals = {0, 1, 3}
  Inf2 = 999
  MaxNan = 1
  Mode = "laws"
  Design = "fresh"
  MaxOps = 3
INVARIANT QueriesFresh
INVARIANT Bounded
CHECK_DEADLOCK FALSE
