------------------------------- MODULE Dispersion -------------------------------
(***************************************************************************************)
(* C07: the wavenumber solver (inverse_intrinsic_dispersion_relation) as a state         *)
(* machine of its iteration control, plus the depth / frequency index map of the        *)
(* spectrum accessors (wavenumber, wavelength, wave_speed, group_velocity).             *)
(*                                                                                     *)
(* Abstract state of one call on an array of NPts points:                               *)
(*   lvl[p]  number of Newton steps point p still needs before its relative residual    *)
(*           |sqrt(g k tanh(kd)) - w| / w is below the tolerance (0 = within tolerance)  *)
(*   it      Newton steps taken so far (all points are stepped together)                *)
(*   phase   "guess" (first guess made, residual computed) -> "iter" -> "done"           *)
(*   warned  the loop ran out of iterations ("No convergence" is printed)               *)
(* One implementation step = one action:                                                *)
(*   FirstGuess  regime-based first guess (deep / shallow branch per point)             *)
(*   NewtonStep  every point is updated, converged points stay converged                *)
(*   Test        convergence test after the step: Exit = "all" (the code: np.all), and    *)
(*               the deliberately wrong designs "any" (np.any) and "first" (point 1 only) *)
(*               which serve as non-vacuity variants                                    *)
(*   GiveUp      it = MaxIter without success                                            *)
(* Property clauses (C07):                                                              *)
(*   Residual     phase = "done" /\ ~warned => every point is within tolerance           *)
(*   InDomain     MaxLevel <= MaxIter => never warned (the property's domain needs at    *)
(*                most MaxIter steps; measured levels are bound by the conformance test) *)
(*   SameCount    every point receives the same number of steps = max(1, max level):     *)
(*                a point in a mixed array is iterated at least as often as alone        *)
(*                (conformance information, not a property clause)                      *)
(***************************************************************************************)
EXTENDS DispersionClauses, TLC, Json

CONSTANTS NPts, MaxIter, MaxLevel, Exit, Emit
VARIABLES lvl, lvl0, it, phase, warned
vars == <<lvl, lvl0, it, phase, warned>>
Pts == 1..NPts

Max(S) == CHOOSE x \in S : \A y \in S : y <= x
Converged(l) == CASE Exit = "all" -> \A p \in Pts : l[p] = 0
                  [] Exit = "any" -> \E p \in Pts : l[p] = 0
                  [] Exit = "first" -> l[1] = 0

Init == /\ lvl = [p \in Pts |-> 0] /\ lvl0 = lvl /\ it = 0 /\ phase = "idle" /\ warned = FALSE
FirstGuess == /\ phase = "idle"
              /\ lvl' \in [Pts -> 0..MaxLevel]
              /\ lvl0' = lvl' /\ phase' = "iter" /\ UNCHANGED <<it, warned>>
NewtonStep == /\ phase = "iter" /\ it < MaxIter
              /\ lvl' = [p \in Pts |-> IF lvl[p] = 0 THEN 0 ELSE lvl[p] - 1]
              /\ it' = it + 1 /\ phase' = "test" /\ UNCHANGED <<lvl0, warned>>
Test == /\ phase = "test"
        /\ IF Converged(lvl) THEN phase' = "done" /\ warned' = warned
           ELSE IF it = MaxIter THEN phase' = "done" /\ warned' = TRUE
           ELSE phase' = "iter" /\ warned' = warned
        /\ UNCHANGED <<lvl, lvl0, it>>
Next == FirstGuess \/ NewtonStep \/ Test
Spec == Init /\ [][Next]_vars

TypeOK == /\ lvl \in [Pts -> 0..MaxLevel] /\ it \in 0..MaxIter
          /\ phase \in {"idle", "iter", "test", "done"} /\ warned \in BOOLEAN
Residual == (phase = "done" /\ ~warned) => \A p \in Pts : lvl[p] = 0
InDomain == (MaxLevel <= MaxIter /\ phase = "done") => ~warned
SameCount == (phase = "done" /\ ~warned /\ Exit = "all") => it = Max({1} \cup {lvl0[p] : p \in Pts})
\* levels never increase (Newton on the convex residual never leaves the tolerance band once inside)
NoRegress == [][\A p \in Pts : phase # "idle" => lvl'[p] <= lvl[p]]_vars

\* spec -> code: one case per mix of levels (as a multiset: the order of the points is immaterial to the
\* model, the driver permutes); expected number of steps for the "all" design
EmitCase == (Emit /\ phase = "done" /\ \A p \in 1..(NPts - 1) : lvl0[p] <= lvl0[p + 1]) =>
               PrintT("@@" \o ToJson([lvl |-> lvl0, steps |-> it, warned |-> warned]))

================================================================================
