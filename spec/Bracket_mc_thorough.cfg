SPECIFICATION Spec
CONSTANTS
  MaxN = 5
  MaxV = 9
  Margin = 11
  Design = "right"
INVARIANT GeneralMeetsClauses
INVARIANT FastPathAgrees
INVARIANT ImageInvariant
INVARIANT MidpointSum
CHECK_DEADLOCK FALSE
