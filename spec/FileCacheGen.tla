----------------------------- MODULE FileCacheGen -----------------------------
(***************************************************************************************)
(* Behaviour generator for the spec -> code direction.  Extends the FileCache state     *)
(* machine with a history variable: the sequence of public calls with everything the   *)
(* environment chose (arguments, per-key fault plan, crash point) and the projection   *)
(* the model predicts after each call.  Run with  tlc -simulate ; every behaviour that *)
(* reaches depth GenDepth prints its history as one JSON line ("@@" prefix).  The       *)
(* driver replays the calls against the real FileCache, records the observed trace,     *)
(* has FileCacheTrace.tla judge it, and compares observed with predicted projections.  *)
(***************************************************************************************)
EXTENDS MCFileCache, Json

CONSTANTS GenDepth, GenCrash
VARIABLE hist

gvars == <<vars, hist>>

PJ(s, f, fo) == [open |-> s.open, entries |-> SetToSeq(s.entries), files |-> f, max |-> s.max, foreign |-> fo]
PlanOf == [k \in Range(req.misses) |-> [plan |-> dl[k].plan, s |-> dl[k].s]]
Rec(r) == hist' = Append(hist, r)

GInit == Init /\ hist = <<>>

GNext ==
    \/ \E lim \in Limits, par, am, evict \in BOOLEAN :
          /\ Open(lim, par, am, evict)
          /\ Rec([op |-> "open", lim |-> lim, par |-> par, am |-> am, evict |-> evict,
                  ok |-> sess'.open, Q |-> PJ(sess', files', foreign')])
    \/ \E keys \in DistinctSeqs(Key, MaxReqLen) : BeginGet(keys) /\ UNCHANGED hist
    \/ \E i \in 1..MaxReqLen : DlStep(i) /\ UNCHANGED hist
    \/ /\ FinishGet
       /\ Rec([op |-> "get", keys |-> req.keys, misses |-> req.misses, plan |-> PlanOf, result |-> "ok",
               crash |-> FALSE, Q |-> PJ(sess', files', foreign')])
    \/ /\ RaiseGet
       /\ Rec([op |-> "get", keys |-> req.keys, misses |-> req.misses, plan |-> PlanOf, result |-> "raised",
               crash |-> FALSE, Q |-> PJ(sess', files', foreign')])
    \/ \E k \in Key :
          \/ RemoveKey(k) /\ Rec([op |-> "remove", key |-> k, Q |-> PJ(sess', files', foreign')])
          \/ UserTouch(k) /\ Rec([op |-> "touch", key |-> k, Q |-> PJ(sess', files', foreign')])
          \/ Invalidate(k) /\ Rec([op |-> "invalidate", key |-> k, Q |-> PJ(sess', files', foreign')])
    \/ Purge /\ Rec([op |-> "purge", Q |-> PJ(sess', files', foreign')])
    \/ ForeignCreate /\ Rec([op |-> "foreign", Q |-> PJ(sess', files', foreign')])
    \/ /\ (GenCrash \/ ~req.active)      \* fault-free generator: only clean close / reopen
       /\ Crash
       /\ IF req.active
          THEN Rec([op |-> "get", keys |-> req.keys, misses |-> req.misses, plan |-> PlanOf, result |-> "crash",
                    crash |-> TRUE, Q |-> PJ(sess', files', foreign')])
          ELSE Rec([op |-> "crash", Q |-> PJ(sess', files', foreign')])

GSpec == GInit /\ [][GNext]_gvars

\* printed once per simulated behaviour, when it reaches the depth bound
Emit == (TLCGet("level") = GenDepth) => PrintT("@@" \o ToJson(hist))
Bound == TLCGet("level") <= GenDepth
================================================================================
