------------------------------ MODULE SpectrumOps ------------------------------
(***************************************************************************************)
(* C15: spectrum objects as a state machine over a heap of objects and data buffers.    *)
(*                                                                                     *)
(* An object is [shape, cells, meta, freqs, be, bs, born, deep]:                        *)
(*   shape  sizes of the leading (space/time) dimensions, <<>> for a single spectrum   *)
(*   cells  per spectrum (C order over the leading dimensions) the sequence of integer *)
(*          variance densities; base objects hold cell identifiers 1000*obj+10*i+j     *)
(*   meta   per spectrum one identifier standing for (time, latitude, longitude, depth) *)
(*   freqs  the frequency indices present                                              *)
(*   be/bs  identifiers of the buffers holding spectral / non-spectral data (aliasing) *)
(*                                                                                     *)
(* Actions are the public operations; each says which objects it may change (frame),   *)
(* whether its result owns fresh buffers, and - for restructuring operations - the     *)
(* exact symbolic result (Concat, Isel, Flatten, Bandpass, SaveLoad, arithmetic, Sum).  *)
(* UserWrite is the environment writing into a buffer in place: every object sharing   *)
(* it changes - which is why a deep copy must share nothing.                           *)
(*                                                                                     *)
(* Checked by TLC: OperandsUnchanged (action property: an operation changes no object   *)
(* outside its frame), DeepIsFresh (no older object shares the buffers of a deep result), *)
(* DeepCopyIsolated (writing into a copy never changes its source), and the round-trip  *)
(* laws Isel(Concat(xs), i) = xs[i], |Flatten(x)| = number of spectra with C-order      *)
(* pairing, SaveLoad(x) = x.  Variant = "head" models interpolate_frequency(spline)     *)
(* as found (fills missing values in its operand) and must violate OperandsUnchanged.   *)
(* The history variable hist records each call with the predicted result; TLC -simulate *)
(* prints behaviours which the driver replays on real spectra whose variance densities  *)
(* are the cell identifiers, comparing arrays exactly.                                 *)
(***************************************************************************************)
EXTENDS Integers, Sequences, FiniteSets, FiniteSetsExt, SequencesExt, Functions, TLC, Json

CONSTANTS MaxObj, NF, GenDepth, Variant

VARIABLES heap, nbuf, hist
ovars == <<heap, nbuf, hist>>

Prod(s) == FoldFunction(LAMBDA x, acc : x * acc, 1, s)
NSpec(o) == IF o.shape = <<>> THEN 1 ELSE Prod(o.shape)
Content(o) == [shape |-> o.shape, cells |-> o.cells, meta |-> o.meta, freqs |-> o.freqs]
Ids == 1..Len(heap)

BaseCells(k, shape) == LET n == IF shape = <<>> THEN 1 ELSE Prod(shape)
                       IN [i \in 1..n |-> [j \in 1..NF |-> 1000 * k + 10 * (i - 1) + (j - 1)]]
BaseMeta(k, shape)  == LET n == IF shape = <<>> THEN 1 ELSE Prod(shape) IN [i \in 1..n |-> 100 * k + i]

\* grid: signature of the coordinates (xarray aligns operands of + and - on their coordinates: only objects on the
\*       same coordinates can be combined); opq: values not predicted symbolically (spline interpolation)
New(shape, cells, meta, freqs, be, bs, deep, grid, opq) ==
    [shape |-> shape, cells |-> cells, meta |-> meta, freqs |-> freqs, be |-> be, bs |-> bs,
     born |-> Len(heap) + 1, deep |-> deep, grid |-> grid, opq |-> opq]

\* ---- symbolic semantics of the restructuring operations -----------------------------------------
ConcatCells(xs) == FoldLeft(LAMBDA acc, x : acc \o x.cells, <<>>, xs)
ConcatMeta(xs)  == FoldLeft(LAMBDA acc, x : acc \o x.meta, <<>>, xs)
Stride(o) == IF Len(o.shape) <= 1 THEN 1 ELSE Prod(Tail(o.shape))
IselCells(o, i) == SubSeq(o.cells, (i - 1) * Stride(o) + 1, i * Stride(o))
IselMeta(o, i)  == SubSeq(o.meta, (i - 1) * Stride(o) + 1, i * Stride(o))
\* C-order multi-index (0-based) of linear index i (0-based) for the given shape
RECURSIVE Unravel(_, _)
Unravel(i, shape) == IF shape = <<>> THEN <<>>
                     ELSE LET st == IF Len(shape) = 1 THEN 1 ELSE Prod(Tail(shape))
                          IN <<i \div st>> \o Unravel(i % st, Tail(shape))
MapCells(o, F(_)) == [i \in 1..Len(o.cells) |-> [j \in 1..Len(o.cells[i]) |-> F(o.cells[i][j])]]
ZipCells(a, b, F(_, _)) == [i \in 1..Len(a.cells) |-> [j \in 1..Len(a.cells[i]) |-> F(a.cells[i][j], b.cells[i][j])]]
BandCells(o, keep) == [i \in 1..Len(o.cells) |-> SelectSeq(o.cells[i], LAMBDA v : TRUE)]
KeepIdx(o, lo, hi) == {j \in 1..Len(o.freqs) : o.freqs[j] >= lo /\ o.freqs[j] < hi}
Band(o, lo, hi) == LET K == KeepIdx(o, lo, hi)  ks == SetToSortSeq(K, LAMBDA a, b : a < b)
                   IN [cells |-> [i \in 1..Len(o.cells) |-> [j \in 1..Len(ks) |-> o.cells[i][ks[j]]]],
                       freqs |-> [j \in 1..Len(ks) |-> o.freqs[ks[j]]]]
SumCells(o) == LET st == Stride(o)  n == o.shape[1]
               IN [r \in 1..st |-> [j \in 1..Len(o.cells[1]) |->
                     FoldFunction(LAMBDA x, acc : x + acc, 0, [i \in 1..n |-> o.cells[(i - 1) * st + r][j]])]]

\* ---- actions --------------------------------------------------------------------------------------------
Room == Len(heap) < MaxObj
Push(o, rec) == heap' = Append(heap, o) /\ hist' = Append(hist, rec @@ [result |-> Content(o), id |-> Len(heap) + 1])
Fresh2 == nbuf' = nbuf + 2

Base(shape) ==
    /\ Room /\ Fresh2
    /\ Push(New(shape, BaseCells(Len(heap) + 1, shape), BaseMeta(Len(heap) + 1, shape), [j \in 1..NF |-> j], nbuf + 1, nbuf + 2, TRUE, <<"b", shape>>, FALSE),
            [op |-> "base", shape |-> shape])

Concat(xs) ==           \* single spectra along a new leading dimension
    /\ Room /\ Len(xs) >= 1 /\ \A i \in 1..Len(xs) : heap[xs[i]].shape = <<>> /\ heap[xs[i]].freqs = heap[xs[1]].freqs /\ ~heap[xs[i]].opq
    /\ Fresh2
    /\ LET os == [i \in 1..Len(xs) |-> heap[xs[i]]]
       IN Push(New(<<Len(xs)>>, ConcatCells(os), ConcatMeta(os), os[1].freqs, nbuf + 1, nbuf + 2, FALSE, <<"c", xs>>, FALSE),
               [op |-> "concat", args |-> xs])

Isel(x, i) ==           \* select index i along the first leading dimension (a view: shares buffers)
    /\ Room /\ heap[x].shape # <<>> /\ i \in 1..heap[x].shape[1] /\ nbuf' = nbuf
    /\ LET o == heap[x] IN
       Push(New(Tail(o.shape), IselCells(o, i), IselMeta(o, i), o.freqs, o.be, o.bs, FALSE, <<"i", o.grid, i>>, FALSE), [op |-> "isel", args |-> <<x>>, i |-> i])

Flatten(x) ==
    /\ Room /\ nbuf' = nbuf
    /\ LET o == heap[x] IN
       Push(New(<<NSpec(o)>>, o.cells, o.meta, o.freqs, o.be, o.bs, FALSE, <<"f", o.grid>>, FALSE),
            [op |-> "flatten", args |-> <<x>>, pairing |-> [i \in 1..NSpec(o) |-> Unravel(i - 1, o.shape)]])

SaveLoad(x) ==
    /\ Room /\ Fresh2
    /\ LET o == heap[x] IN Push(New(o.shape, o.cells, o.meta, o.freqs, nbuf + 1, nbuf + 2, TRUE, o.grid, FALSE), [op |-> "saveload", args |-> <<x>>])

DeepCopy(x) ==
    /\ Room /\ Fresh2
    /\ LET o == heap[x] IN Push(New(o.shape, o.cells, o.meta, o.freqs, nbuf + 1, nbuf + 2, TRUE, o.grid, FALSE), [op |-> "deepcopy", args |-> <<x>>])

ShallowCopy(x) ==
    /\ Room /\ nbuf' = nbuf
    /\ LET o == heap[x] IN Push(New(o.shape, o.cells, o.meta, o.freqs, o.be, o.bs, FALSE, o.grid, FALSE), [op |-> "shallowcopy", args |-> <<x>>])

Arith(kind, x, y) ==    \* x + y, x - y, -x, x.multiply(2): deep copy of x with new densities
    /\ Room /\ Fresh2
    /\ (kind \in {"add", "sub"} => heap[x].shape = heap[y].shape /\ heap[x].freqs = heap[y].freqs /\ heap[x].grid = heap[y].grid)
    /\ LET o == heap[x]  p == heap[y]
           c == CASE kind = "add" -> ZipCells(o, p, LAMBDA a, b : a + b)
                  [] kind = "sub" -> ZipCells(o, p, LAMBDA a, b : a - b)
                  [] kind = "neg" -> MapCells(o, LAMBDA a : 0 - a)
                  [] OTHER        -> MapCells(o, LAMBDA a : 2 * a)
       IN Push(New(o.shape, c, o.meta, o.freqs, nbuf + 1, nbuf + 2, TRUE, o.grid, FALSE),
               [op |-> kind, args |-> IF kind \in {"add", "sub"} THEN <<x, y>> ELSE <<x>>])

Bandpass(x, lo, hi) ==  \* spectral variables are new arrays, the other variables are shared
    /\ Room /\ nbuf' = nbuf + 1 /\ KeepIdx(heap[x], lo, hi) # {}
    /\ LET o == heap[x]  b == Band(o, lo, hi)
       IN Push(New(o.shape, b.cells, o.meta, b.freqs, nbuf + 1, o.bs, FALSE, <<"bp", o.grid, lo, hi>>, FALSE), [op |-> "bandpass", args |-> <<x>>, lo |-> lo, hi |-> hi])

SumFirst(x) ==          \* sum over the first leading dimension
    /\ Room /\ Fresh2 /\ heap[x].shape # <<>>
    /\ LET o == heap[x] IN
       Push(New(Tail(o.shape), SumCells(o), [r \in 1..Stride(o) |-> 0], o.freqs, nbuf + 1, nbuf + 2, TRUE, <<"sum", o.grid>>, FALSE),
            [op |-> "sum", args |-> <<x>>])

\* operations whose receiver is in the frame by contract: the receiver's densities are rebound
MulInplace(x) ==
    /\ nbuf' = nbuf + 1
    /\ heap' = [heap EXCEPT ![x].cells = MapCells(heap[x], LAMBDA a : 2 * a), ![x].be = nbuf + 1]
    /\ hist' = Append(hist, [op |-> "mul_inplace", args |-> <<x>>, result |-> Content(heap'[x]), id |-> x])

\* interpolation to the grid's own frequencies (values unchanged); "head": the spline variant fills
\* missing values in its operand, i.e. writes to the operand (modelled as a change of its content)
InterpSelf(x, spline) ==
    /\ Room /\ Fresh2
    /\ LET o == heap[x]
           res == New(o.shape, o.cells, o.meta, o.freqs, nbuf + 1, nbuf + 2, TRUE, o.grid, spline)
       IN /\ IF Variant = "head" /\ spline
             THEN heap' = Append([heap EXCEPT ![x].cells = MapCells(o, LAMBDA a : IF a % 7 = 0 THEN 0 ELSE a)], res)
             ELSE heap' = Append(heap, res)
          /\ hist' = Append(hist, [op |-> IF spline THEN "interp_spline" ELSE "interp_linear", args |-> <<x>>,
                                   result |-> Content(res), id |-> Len(heap) + 1])

\* environment: in-place write into the spectral buffer of x; every object sharing the buffer sees it
UserWrite(x) ==
    /\ nbuf' = nbuf
    \* (generated behaviours only write into deep objects that nobody shares yet: the replay then does not
    \*  depend on whether a later view shares memory, which the property does not regulate)
    /\ heap[x].deep /\ ~heap[x].opq /\ \A k \in Ids : k # x => heap[k].be # heap[x].be
    /\ heap' = [k \in Ids |-> IF heap[k].be = heap[x].be THEN [heap[k] EXCEPT !.cells = MapCells(heap[k], LAMBDA a : 0 - a - 1)] ELSE heap[k]]
    /\ hist' = Append(hist, [op |-> "userwrite", args |-> <<x>>, result |-> Content(heap'[x]), id |-> x])

Shapes == {<<>>, <<2>>, <<2, 2>>}
Op ==
    \/ \E s \in Shapes : Base(s)
    \/ \E xs \in {q \in UNION {[1..m -> Ids] : m \in 1..3} : \A a, b \in DOMAIN q : a # b => q[a] # q[b]} : Concat(xs)
    \/ \E x \in {k \in Ids : ~heap[k].opq} :
                      \/ \E i \in 1..2 : Isel(x, i)
                      \/ Flatten(x) \/ SaveLoad(x) \/ DeepCopy(x) \/ ShallowCopy(x) \/ SumFirst(x)
                      \/ \E kind \in {"neg", "mul"} : Arith(kind, x, x)
                      \/ \E y \in {k \in Ids : ~heap[k].opq}, kind \in {"add", "sub"} : Arith(kind, x, y)
                      \/ \E lo \in 1..NF, hi \in 2..(NF + 1) : lo < hi /\ Bandpass(x, lo, hi)
                      \/ \E sp \in BOOLEAN : InterpSelf(x, sp)
                      \/ MulInplace(x)
Env == \E x \in Ids : UserWrite(x)
Init == heap = <<>> /\ nbuf = 0 /\ hist = <<>>
Next == (Len(hist) < GenDepth) /\ (Op \/ Env)
Spec == Init /\ [][Next]_ovars

\* ---- properties ---------------------------------------------------------------------------------------------
LastOp == IF hist = <<>> THEN "none" ELSE hist[Len(hist)].op
\* an operation (not the environment) leaves every operand bit-for-bit unchanged, except the receiver of
\* the operations that work in place by contract
OperandsUnchanged ==
    [][ (hist' # hist /\ hist'[Len(hist')].op # "userwrite") =>
          \A k \in Ids : (hist'[Len(hist')].op = "mul_inplace" /\ hist'[Len(hist')].id = k) \/ Content(heap'[k]) = Content(heap[k]) ]_ovars
\* a deep result shares no buffer with any object that existed before it
DeepIsFresh == \A d \in Ids : heap[d].deep => \A x \in Ids : heap[x].born < heap[d].born => (heap[x].be # heap[d].be /\ heap[x].bs # heap[d].bs)
\* writing into an object changes no older object of which it is a deep copy / arithmetic result
DeepCopyIsolated ==
    [][ (hist' # hist /\ hist'[Len(hist')].op = "userwrite") =>
          LET w == hist'[Len(hist')].id IN
          heap[w].deep => \A x \in Ids : heap[x].born < heap[w].born => Content(heap'[x]) = Content(heap[x]) ]_ovars
\* round trips, evaluated on the object just created
RoundTrips ==
    hist # <<>> =>
    LET h == hist[Len(hist)] IN
    /\ (h.op = "concat" => \A i \in 1..Len(h.args) :
            /\ IselCells(heap[h.id], i) = heap[h.args[i]].cells
            /\ IselMeta(heap[h.id], i) = heap[h.args[i]].meta)
    /\ (h.op = "flatten" => /\ Len(heap[h.id].cells) = NSpec(heap[h.args[1]])
                            /\ heap[h.id].cells = heap[h.args[1]].cells /\ heap[h.id].meta = heap[h.args[1]].meta
                            /\ Cardinality({h.pairing[i] : i \in 1..Len(h.pairing)}) = NSpec(heap[h.args[1]]))
    /\ (h.op = "saveload" => Content(heap[h.id]) = Content(heap[h.args[1]]))
    /\ (h.op = "sub" /\ h.args[1] = h.args[2] => \A i \in 1..Len(heap[h.id].cells) : \A j \in 1..Len(heap[h.id].cells[i]) : heap[h.id].cells[i][j] = 0)

Emit == (Len(hist) = GenDepth) => PrintT("@@" \o ToJson(hist))
View == <<heap, nbuf, IF hist = <<>> THEN <<>> ELSE <<hist[Len(hist)]>>>>
================================================================================
