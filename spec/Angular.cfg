SPECIFICATION Spec
CONSTANTS
  Avals <- MCAvals
  Deltas <- MCDeltas
  Weights <- MCWeights
INVARIANT Laws
INVARIANT Emit
CHECK_DEADLOCK FALSE
