-------------------------------- MODULE EqRange --------------------------------
(***************************************************************************************)
(* C12 (discrete part): selection of the equilibrium level and direction conventions.  *)
(*                                                                                     *)
(* Peak method: the equilibrium level is the maximum of E(f)*f^4 over the grid (missing *)
(* values count as zero), taken at the first index attaining it; the wind direction is  *)
(* atan2(b1, a1) at that index, in [0, 360).  With moments on the 8 octant directions   *)
(* (a1, b1) = r*(cos, sin)(45*k) the going-to direction is exactly 45*k, and the         *)
(* coming-from / clockwise-from-north convention is (270 - going-to) mod 360 - integer  *)
(* arithmetic.  TLC enumerates integer spectra (ties between E*f^4 values included),    *)
(* checks that the selected index maximises E*f^4 and is the first such index, that the *)
(* convention map is an involution that reverses orientation and sends east-going (0)   *)
(* to coming-from-west (270), and emits the expected level, index and both directions.  *)
(***************************************************************************************)
EXTENDS MCSpectrum1D

Scaled(j) == IF nan[j] THEN 0 ELSE e[j] * Pow(f[j], 4)
MaxScaled == Max({Scaled(j) : j \in 1..N})
SelIdx == Min({j \in 1..N : Scaled(j) = MaxScaled})
Oct(j) == (3 * j + 1) % 8                     \* octant direction of frequency bin j: 45 * Oct(j) degrees
GoingTo(j) == 45 * Oct(j)
ComingFrom(d) == (270 - d) % 360

ENext == \/ stage = "idle" /\ f' \in Grids /\ e' = e /\ nan' = nan /\ stage' = "grid"
         \/ stage = "grid" /\ f' = f /\ e' \in [1..N -> Vals] /\ nan' \in Masks(N) /\ stage' = "case"
ESpec == Init /\ [][ENext]_svars

ELaws == Leaf =>
    /\ \A j \in 1..N : Scaled(j) <= Scaled(SelIdx)
    /\ \A j \in 1..(SelIdx - 1) : Scaled(j) < Scaled(SelIdx)
    /\ \A d \in {45 * k : k \in 0..7} : /\ ComingFrom(ComingFrom(d)) = d
                                       /\ ComingFrom(d) \in 0..359
                                       /\ ComingFrom((d + 45) % 360) = (ComingFrom(d) - 45) % 360     \* orientation reversed
    /\ ComingFrom(0) = 270 /\ ComingFrom(90) = 180 /\ ComingFrom(270) = 0

EEmit == Leaf => PrintT("@@" \o ToJson([f |-> f, e |-> e, nan |-> [j \in 1..N |-> IF nan[j] THEN 1 ELSE 0],
                                       level |-> MaxScaled, idx |-> SelIdx, oct |-> [j \in 1..N |-> Oct(j)],
                                       going |-> GoingTo(SelIdx), coming |-> ComingFrom(GoingTo(SelIdx))]))
================================================================================
