SPECIFICATION Spec
CONSTANTS
  Octants <- OctT
  Fillers <- FillT
  NOct = {2, 3}
  NFill = {0, 1}
  DVals = {0, 1, 2}
INVARIANT Laws
INVARIANT Emit
CHECK_DEADLOCK FALSE
