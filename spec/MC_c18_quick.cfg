SPECIFICATION Spec
CONSTANTS
  Key <- MCKey3
  SizeKB <- MCSize3
  PPKeys <- MCPP3
  ValKeys <- MCVal3
  Limits <- MCLimit1
  MB = 1000
  MaxFaults = 0
  MaxReqLen = 2
  Chunked = TRUE
  Variant = "fixed"
VIEW View
INVARIANT NoC18Violation
INVARIANT NoC19Violation
INVARIANT NoViolation
INVARIANT EntryHasFileAlways
INVARIANT FinalFilesGood
INVARIANT ForeignSafe
INVARIANT QuietSizeBound
PROPERTY MaxMonotone
CHECK_DEADLOCK FALSE
