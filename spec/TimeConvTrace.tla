---------------------------- MODULE TimeConvTrace ----------------------------
(* Trace validation for C17: conversions recorded from tools/time.py on random instants and on   *)
(* every packed integer are re-derived with the calendar operators of TimeConv.tla.             *)
(*   conv : loc = local civil fields <<y,m,d,h,mi,s>>, us, off (minutes), floor (1 = the        *)
(*          representation only carries whole seconds), got = <<y,m,d,h,mi,s,us>> returned     *)
(*   dates: t[i] packed yyyymmdd / yymmdd, days[i] = returned date as days since 1970-01-01    *)
(*   times: t[i] packed hhmmss / hhmm / hh, sec[i] = returned timedelta in seconds             *)
EXTENDS MCTimeConv, IOUtils, SequencesExt

Recs == ndJsonDeserialize(IOEnv.TRACE_FILE)
VARIABLE i

ExpectUTC(r) == LET days == DaysFromCivil(r.loc[1], r.loc[2], r.loc[3])
                    sod  == r.loc[4] * 3600 + r.loc[5] * 60 + r.loc[6]
                    u    == ToUTC(days, sod, r.off)
                IN CivilFromDays(u[1]) \o HMS(u[2]) \o <<IF r.floor = 1 THEN 0 ELSE r.us>>

BadIdx(r) == CASE r.k = "conv"  -> IF ExpectUTC(r) = r.got THEN {} ELSE {0}
               [] r.k = "dates" -> {j \in 1..Len(r.t) : LET c == DecodeDate(r.t[j]) IN
                                       DaysFromCivil(c[1], c[2], c[3]) # r.days[j]}
               [] r.k = "times" -> {j \in 1..Len(r.t) : DecodeTime(r.t[j]) # r.sec[j]}
               [] OTHER -> {0}

TInit == i = 1 /\ z = 0
Step == /\ i <= Len(Recs)
        /\ LET r == Recs[i]
               B == BadIdx(r)
           IN IF B = {} THEN TRUE
              ELSE PrintT("@@" \o ToJson([id |-> r.id, k |-> r.k, bad |-> SetToSeq(B),
                                          expect |-> IF r.k = "conv" THEN ExpectUTC(r) ELSE <<>>]))
        /\ i' = i + 1 /\ UNCHANGED z
Done == i = Len(Recs) + 1 /\ PrintT("@@" \o ToJson([done |-> TRUE, consumed |-> Len(Recs)])) /\ i' = i + 1 /\ UNCHANGED z
TSpec == TInit /\ [][Step \/ Done]_<<i, z>>
================================================================================
