------------------------------ MODULE SignSupport ------------------------------
(***************************************************************************************)
(* C08 / C10 / C11: sign, support and root-bracket abstractions (pure operators).       *)
(*                                                                                     *)
(* Support: on an integer-degree direction grid dir[1..N], with wind direction w        *)
(* (integer degrees, going-to) and an energy mask en[f][j] (TRUE = variance density > 0) *)
(* the wind input of bin (f, j) may be non-zero only where energy is present and the     *)
(* bin has a downwind component:  |wrap(dir[j] - w)| < 90.  Bins at exactly +-90 are      *)
(* unspecified (cos is +-6e-17 in floating point).  Predicted sign pattern:             *)
(*    wind input   in {0, +} on the support, 0 elsewhere                                *)
(*    dissipation  in {0, -} where energy is present, 0 elsewhere                        *)
(* encoded as the set of signs a bin may show.                                          *)
(*                                                                                     *)
(* RootScan: a function scanned on an increasing grid gives a sign vector sg[1..n]       *)
(* (-1, 0, +1).  Changes(sg) = cells i with sg[i] * sg[i+1] < 0.  When there is exactly  *)
(* one change, in cell c, a returned root must lie in cell c (C10: or be missing; C11:   *)
(* must be finite).                                                                     *)
(***************************************************************************************)
EXTENDS Integers, Sequences, FiniteSets, TLC

\* angles are integers in units of 360/P degrees (P = 360: degrees, P = 720: half degrees, ...)
Wrap(x, P) == ((x + P \div 2) % P) - P \div 2
Abs(x) == IF x < 0 THEN 0 - x ELSE x
Downwind(d, w, P) == 4 * Abs(Wrap(d - w, P)) < P
Crosswind(d, w, P) == 4 * Abs(Wrap(d - w, P)) = P

\* allowed signs of the wind input / dissipation in a bin (as sets of -1, 0, 1)
InputSigns(d, w, energy, P) == IF ~energy THEN {0}
                               ELSE IF Crosswind(d, w, P) THEN {0 - 1, 0, 1}      \* unspecified
                               ELSE IF Downwind(d, w, P) THEN {0, 1} ELSE {0}
DissSigns(energy) == IF energy THEN {0 - 1, 0} ELSE {0}

Changes(sg) == {i \in 1..(Len(sg) - 1) : sg[i] * sg[i + 1] < 0}
SingleRoot(sg) == Cardinality(Changes(sg)) = 1 /\ \A i \in 1..Len(sg) : sg[i] # 0
RootCell(sg) == CHOOSE i \in Changes(sg) : TRUE
\* res: 0 = missing, otherwise the index of the cell that contains the returned value (n = beyond the scan)
RootOK(sg, res, mustBeFinite) == SingleRoot(sg) => ((res = 0 /\ ~mustBeFinite) \/ res = RootCell(sg))
================================================================================
