SPECIFICATION Spec
CONSTANTS
  MaxObj = 4
  NF = 3
  GenDepth = 5
  Variant = "fixed"
VIEW View
INVARIANT DeepIsFresh
INVARIANT RoundTrips
PROPERTY OperandsUnchanged
PROPERTY DeepCopyIsolated
CHECK_DEADLOCK FALSE
