----------------------------- MODULE CacheRegistry -----------------------------
(***************************************************************************************)
(* The module-level API of filecache.py: a process-wide registry of NAMED caches.       *)
(* (Growth beyond the listed properties; C18 / C19 describe one cache, this module      *)
(* describes how several caches coexist.)                                                *)
(*                                                                                     *)
(*   active[n]   directory of the cache registered under name n, or "none"              *)
(*   disk[p]     set of keys whose cache file exists in directory p                      *)
(*   ent[n]      entries of the cache object registered under n                          *)
(*   last        result of the last call: "ok" | "error"                                 *)
(* Actions (one per public function):                                                   *)
(*   Create(n, p)      create_cache: error if the name is registered or another cache    *)
(*                     uses the directory; the new cache adopts the cache files found    *)
(*   Delete(n)         delete_cache: error if not registered; purges the files of its    *)
(*                     entries, keeps the directory, forgets the name                    *)
(*   Get(n, k)         filepaths(uri, n): error if n is not registered - except the      *)
(*                     default name, which is created on first use in DefaultDir         *)
(*   DeleteFiles(n, k, strict)  delete_files: removes entry and file; a key that is not  *)
(*                     cached is an error only if strict                                 *)
(*   Exists(n)         exists                                                            *)
(* Properties: two registered caches never share a directory; a call on one cache never  *)
(* changes the files or entries of another; an erroneous call changes nothing; entries   *)
(* of a registered cache = cache files in its directory.                                 *)
(***************************************************************************************)
EXTENDS Naturals, Sequences, FiniteSets, TLC, Json

CONSTANTS Names, Dirs, Keys, Default, DefaultDir, MaxOps, StrictRaises, Design   \* Design = "lib" | "noshare" (no shared-directory test: non-vacuity variant)
VARIABLES active, disk, ent, last, hist, call
vars == <<active, disk, ent, last, hist, call>>
View == <<active, disk, ent, last, call>>

Registered == {n \in Names : active[n] # "none"}
Init == /\ active = [n \in Names |-> "none"]
        /\ disk = [p \in Dirs |-> {}]
        /\ ent = [n \in Names |-> {}]
        /\ last = "ok" /\ hist = <<>> /\ call = [op |-> "none", name |-> "none"]

Log(rec) == hist' = Append(hist, rec) /\ call' = [op |-> rec.op, name |-> rec.name]
Room == Len(hist) < MaxOps

Create(n, p) ==
    /\ Room
    /\ IF n \in Registered \/ (Design = "lib" /\ \E m \in Registered : active[m] = p)
       THEN last' = "error" /\ UNCHANGED <<active, disk, ent>>
       ELSE /\ active' = [active EXCEPT ![n] = p]
            /\ ent' = [ent EXCEPT ![n] = disk[p]]            \* adopts what is in the directory
            /\ last' = "ok" /\ UNCHANGED disk
    /\ Log([op |-> "create", name |-> n, dir |-> p, result |-> last',
            registered |-> {m \in Names : active'[m] # "none"}, entries |-> ent'[n]])

Delete(n) ==
    /\ Room
    /\ IF n \notin Registered
       THEN last' = "error" /\ UNCHANGED <<active, disk, ent>>
       ELSE /\ disk' = [disk EXCEPT ![active[n]] = @ \ ent[n]]
            /\ active' = [active EXCEPT ![n] = "none"]
            /\ ent' = [ent EXCEPT ![n] = {}]
            /\ last' = "ok"
    /\ Log([op |-> "delete", name |-> n, result |-> last', registered |-> {m \in Names : active'[m] # "none"}])

\* the directory a Get on name n works in (auto-creation of the default cache)
GetDir(n) == IF n \in Registered THEN active[n] ELSE IF n = Default THEN DefaultDir ELSE "none"
Get(n, k) ==
    /\ Room
    /\ LET p == GetDir(n)
       IN IF p = "none" \/ (n \notin Registered /\ \E m \in Registered : active[m] = p)
          THEN last' = "error" /\ UNCHANGED <<active, disk, ent>>
          ELSE /\ active' = [active EXCEPT ![n] = p]
               /\ ent' = [ent EXCEPT ![n] = (IF n \in Registered THEN ent[n] ELSE disk[p]) \cup {k}]
               /\ disk' = [disk EXCEPT ![p] = @ \cup {k}]
               /\ last' = "ok"
    /\ Log([op |-> "get", name |-> n, key |-> k, result |-> last',
            registered |-> {m \in Names : active'[m] # "none"}, entries |-> ent'[n]])

DeleteFiles(n, k, strict) ==
    /\ Room
    /\ LET p == GetDir(n)
       IN IF p = "none" \/ (n \notin Registered /\ \E m \in Registered : active[m] = p)
          THEN last' = "error" /\ UNCHANGED <<active, disk, ent>>
          ELSE LET e0 == IF n \in Registered THEN ent[n] ELSE disk[p]
               IN /\ active' = [active EXCEPT ![n] = p]
                  /\ ent' = [ent EXCEPT ![n] = e0 \ {k}]
                  /\ disk' = [disk EXCEPT ![p] = IF k \in e0 THEN @ \ {k} ELSE @]
                  \* documented: a key that is not cached is an error when strict.  The library never raises here
                  \* (FileCache.remove tests `not self.in_cache(uri)`, and in_cache returns a list): StrictRaises = FALSE
                  \* models what the code does; the deviation is recorded in DESIGN.md 9.9
                  /\ last' = IF k \notin e0 /\ strict /\ StrictRaises THEN "error" ELSE "ok"
    /\ Log([op |-> "delete_files", name |-> n, key |-> k, strict |-> strict, result |-> last',
            registered |-> {m \in Names : active'[m] # "none"}, entries |-> ent'[n]])

Next == \/ \E n \in Names, p \in Dirs : Create(n, p)
        \/ \E n \in Names : Delete(n)
        \/ \E n \in Names, k \in Keys : Get(n, k)
        \/ \E n \in Names, k \in Keys, s \in BOOLEAN : DeleteFiles(n, k, s)
Spec == Init /\ [][Next]_vars

NoSharedDirectory == \A m, n \in Registered : m # n => active[m] # active[n]
EntriesEqualFiles == \A n \in Registered : ent[n] = disk[active[n]]
Unregistered == \A n \in Names \ Registered : ent[n] = {}
\* a call names one cache: directories of the other registered caches keep their files, other caches keep their entries
Isolation == [][\A n \in Names :
                  (call'.name # n /\ n \in Registered)
                     => (ent'[n] = ent[n] /\ active'[n] = active[n] /\ disk'[active[n]] = disk[active[n]])]_vars
ErrorChangesNothing == [][(last' = "error" /\ call'.op # "delete_files")
                              => UNCHANGED <<active, disk, ent>>]_vars
Emit == (Len(hist) = MaxOps) => PrintT("@@" \o ToJson([hist |-> hist]))
================================================================================
