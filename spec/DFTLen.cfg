SPECIFICATION Spec
CONSTANTS
  MinL = 8
  MaxL = 80
  Design = "fixed"
INVARIANT SameLength
INVARIANT NyquistIncluded
INVARIANT EvenLength
INVARIANT Emit
CHECK_DEADLOCK FALSE
