--------------------------- MODULE MCBalanceSession ---------------------------
EXTENDS BalanceSession
\* A and B: grids of the same shape with different coordinate values; C: another shape
SpecSet == {"A", "B", "C"}
ShapeOf == [s \in SpecSet |-> IF s = "C" THEN 2 ELSE 1]
================================================================================
