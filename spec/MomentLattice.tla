------------------------------ MODULE MomentLattice ------------------------------
(***************************************************************************************)
(* C05 / C06: the quantifier domain "finite moment quadruples with a1^2 + b1^2 < 1" on   *)
(* a rational lattice (denominator Q), decided exactly, and the abstract result every   *)
(* estimator call must have on it: alpha(output) = <<returned, all finite, all >= 0>>   *)
(* = <<TRUE, TRUE, TRUE>>.  Quadruples are classified (TLC, exact integer arithmetic):   *)
(*   "disc"         a1^2 + b1^2 < 1 (inside the quantifier)                             *)
(*   "realisable2"  additionally |c2| <= 1 and the second moment compatible with the     *)
(*                  first:  |c2 - c1^2| <= 1 - |c1|^2  (necessary for a non-negative       *)
(*                  distribution); the others are the unrealisable / noisy quadruples a    *)
(*                  buoy may report, which the property includes.                        *)
(***************************************************************************************)
EXTENDS Integers, Sequences, FiniteSets, TLC, Json

CONSTANTS Q, P1, P2          \* denominators and numerator lattices for (a1,b1) and (a2,b2)
VARIABLES m, stage
mvars2 == <<m, stage>>

InDisc(q) == q[1] * q[1] + q[2] * q[2] < Q * Q
\* c2 - c1^2 = (a2 - a1^2 + b1^2) + i (b2 - 2 a1 b1), scaled by Q^2
Compat(q) == LET re == q[3] * Q - q[1] * q[1] + q[2] * q[2]
                 im == q[4] * Q - 2 * q[1] * q[2]
                 rhs == Q * Q - q[1] * q[1] - q[2] * q[2]
             IN re * re + im * im <= rhs * rhs /\ q[3] * q[3] + q[4] * q[4] <= Q * Q

Init == m = <<0, 0, 0, 0>> /\ stage = "idle"
Next == /\ stage = "idle" /\ stage' = "case"
        /\ \E a \in P1, b \in P1, c \in P2, d \in P2 : m' = <<a, b, c, d>>
Spec == Init /\ [][Next]_mvars2

Emit == (stage = "case" /\ InDisc(m)) =>
          PrintT("@@" \o ToJson([q |-> Q, m |-> m, realisable2 |-> IF Compat(m) THEN 1 ELSE 0]))
\* the abstract obligation
Obligation == <<TRUE, TRUE, TRUE>>
Sanity == stage = "case" => (InDisc(m) <=> (m[1] * m[1] + m[2] * m[2]) * 1 < Q * Q)
================================================================================
