SPECIFICATION Spec
CONSTANTS
  Specs <- SpecSet
  Shape <- ShapeOf
  Winds = {"w1", "w2"}
  ParamSets = {"p0", "p1"}
  Ops = {"rate", "diss", "bulk", "imbalance", "roughness", "invert"}
  Design = "grid_by_shape"
  MaxOps = 4
INVARIANT QueriesFresh

CHECK_DEADLOCK FALSE
