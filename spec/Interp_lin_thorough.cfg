SPECIFICATION Spec
CONSTANTS
  Lattice <- LatT
  Sizes = {2, 3, 4, 5}
  Shifts <- Shift0
  Targets <- TgtT
  P = 0
  MaskKind = "all"
INVARIANT NodeExact
INVARIANT Bounded
INVARIANT NoExtrapolation
INVARIANT AffineExact
INVARIANT DirectionIndependent
INVARIANT Periodic
INVARIANT Emit
CHECK_DEADLOCK FALSE
