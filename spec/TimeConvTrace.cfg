SPECIFICATION TSpec
CONSTANTS
  LastDay = 0
  Offsets <- MCOffsets
  EmitYears = {}
  EmitSods = {}
  EmitUs = {}
CHECK_DEADLOCK FALSE
