------------------------------- MODULE TimeConv -------------------------------
(***************************************************************************************)
(* C17: civil calendar arithmetic for tools/time.py, independent of Python's datetime. *)
(*                                                                                     *)
(* An instant is <<days since 1970-01-01, second of day, microsecond>> (epoch seconds   *)
(* do not fit TLC's 32-bit integers after 2038).  DaysFromCivil / CivilFromDays are the *)
(* closed-form proleptic Gregorian conversions; TLC walks every day of 1970..2100 and   *)
(* checks them against the plain calendar rules (month lengths, leap years, successor  *)
(* day), that they are inverse to each other, that shifting by a UTC offset and back is *)
(* the identity, and that the packed integer forms yyyymmdd / yymmdd decode to the same *)
(* day.  On selected days it emits conversion cases (local civil fields + offset ->     *)
(* UTC civil fields) which the driver feeds to to_datetime_utc in every representation. *)
(* TimeConvTrace.tla re-evaluates the same operators on conversions recorded from the   *)
(* code on random instants.                                                            *)
(***************************************************************************************)
EXTENDS Integers, Sequences, FiniteSets, TLC, Json

CONSTANTS LastDay,      \* number of days to walk (47846 = 2100-12-31)
          Offsets,      \* UTC offsets in minutes
          EmitYears, EmitSods, EmitUs

VARIABLE z
IsLeap(y) == (y % 4 = 0 /\ y % 100 # 0) \/ y % 400 = 0
DaysInMonth(y, m) == CASE m \in {1, 3, 5, 7, 8, 10, 12} -> 31
                       [] m \in {4, 6, 9, 11} -> 30
                       [] OTHER -> IF IsLeap(y) THEN 29 ELSE 28

DaysFromCivil(y, m, d) ==
    LET yy  == IF m <= 2 THEN y - 1 ELSE y
        era == yy \div 400
        yoe == yy - era * 400
        mp  == (m + 9) % 12
        doy == (153 * mp + 2) \div 5 + d - 1
        doe == yoe * 365 + yoe \div 4 - yoe \div 100 + doy
    IN era * 146097 + doe - 719468

CivilFromDays(z0) ==
    LET zz  == z0 + 719468
        era == zz \div 146097
        doe == zz - era * 146097
        yoe == (doe - doe \div 1460 + doe \div 36524 - doe \div 146096) \div 365
        y   == yoe + era * 400
        doy == doe - (365 * yoe + yoe \div 4 - yoe \div 100)
        mp  == (5 * doy + 2) \div 153
        d   == doy - (153 * mp + 2) \div 5 + 1
        m   == IF mp < 10 THEN mp + 3 ELSE mp - 9
    IN <<IF m <= 2 THEN y + 1 ELSE y, m, d>>

NextCivil(c) == IF c[3] < DaysInMonth(c[1], c[2]) THEN <<c[1], c[2], c[3] + 1>>
                ELSE IF c[2] < 12 THEN <<c[1], c[2] + 1, 1>> ELSE <<c[1] + 1, 1, 1>>

\* local wall clock <<days, sod>> at offset off (minutes east of UTC) -> UTC <<days, sod>>
ToUTC(days, sod, off)   == LET s == sod - 60 * off IN <<days + (s \div 86400), s % 86400>>
ToLocal(days, sod, off) == LET s == sod + 60 * off IN <<days + (s \div 86400), s % 86400>>
HMS(sod) == <<sod \div 3600, (sod % 3600) \div 60, sod % 60>>

\* packed integers
DateIntLong(c)  == c[1] * 10000 + c[2] * 100 + c[3]                 \* yyyymmdd
DateIntShort(c) == (c[1] - 2000) * 10000 + c[2] * 100 + c[3]        \* yymmdd, 2000..2099
DecodeDate(t) == IF t > 1000000 THEN <<t \div 10000, (t % 10000) \div 100, t % 100>>
                 ELSE <<2000 + t \div 10000, (t % 10000) \div 100, t % 100>>
\* hhmmss / hhmm / hh, unambiguous when the leading field is >= 1 (or the hh form itself)
DecodeTime(t) == IF t >= 10000 THEN (t \div 10000) * 3600 + ((t % 10000) \div 100) * 60 + (t % 100)
                 ELSE IF t >= 100 THEN (t \div 100) * 3600 + (t % 100) * 60
                 ELSE t * 3600

Init == z = 0
Next == z < LastDay /\ z' = z + 1
Spec == Init /\ [][Next]_z

Civil == CivilFromDays(z)
CalendarOK ==
    /\ Civil[2] \in 1..12 /\ Civil[3] \in 1..DaysInMonth(Civil[1], Civil[2])
    /\ DaysFromCivil(Civil[1], Civil[2], Civil[3]) = z
    /\ CivilFromDays(z + 1) = NextCivil(Civil)
    /\ (z = 0 => Civil = <<1970, 1, 1>>)
    /\ (z = 11016 => Civil = <<2000, 2, 29>>)
    /\ (z = 47846 => Civil = <<2100, 12, 31>>)
OffsetsOK == \A off \in Offsets, sod \in {0, 1, 43200, 86399} :
                LET l == ToLocal(z, sod, off) IN ToUTC(l[1], l[2], off) = <<z, sod>>
PackedOK ==
    /\ DecodeDate(DateIntLong(Civil)) = Civil
    /\ (Civil[1] \in 2000..2099 => DecodeDate(DateIntShort(Civil)) = Civil)

Boundary == Civil[3] = 1 \/ Civil[3] >= 28 \/ z \in {24855, 24856}     \* 2038-01-19/20
Emit == (Civil[1] \in EmitYears /\ Boundary) =>
          \A sod \in EmitSods, us \in EmitUs, off \in Offsets :
             LET l  == ToLocal(z, sod, off)
                 lc == CivilFromDays(l[1])
             IN PrintT("@@" \o ToJson([days |-> z, sod |-> sod, us |-> us, off |-> off,
                                       utc |-> Civil \o HMS(sod), loc |-> lc \o HMS(l[2])]))
================================================================================
