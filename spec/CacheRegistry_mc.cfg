SPECIFICATION Spec
CONSTANTS
  Names = {"a", "b", "dflt"}
  Dirs = {"p1", "p2", "pd"}
  Keys = {"k1", "k2"}
  Default = "dflt"
  DefaultDir = "pd"
  Design = "lib"
  StrictRaises = FALSE
  MaxOps = 14
VIEW View
INVARIANT NoSharedDirectory
INVARIANT EntriesEqualFiles
INVARIANT Unregistered
PROPERTY Isolation
PROPERTY ErrorChangesNothing
CHECK_DEADLOCK FALSE
