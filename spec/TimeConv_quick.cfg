SPECIFICATION Spec
CONSTANTS
  LastDay = 47846
  Offsets <- MCOffsets
  EmitYears = {1970, 1999, 2000, 2024, 2038, 2096, 2100}
  EmitSods = {0, 11655, 86399}
  EmitUs = {0, 5000, 125000, 999999}
INVARIANT CalendarOK
INVARIANT OffsetsOK
INVARIANT PackedOK
INVARIANT Emit
CHECK_DEADLOCK FALSE
