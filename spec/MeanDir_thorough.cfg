SPECIFICATION MSpec
CONSTANTS
  FLattice <- LatM
  Sizes = {2, 3}
  Vals = {0, 1, 2}
  Inf2 = 999
  MaxNan = 0
  Mode = "emit"
  PQ <- MCPQT
INVARIANT MLaws
INVARIANT MEmit
CHECK_DEADLOCK FALSE
