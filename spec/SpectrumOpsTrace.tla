--------------------------- MODULE SpectrumOpsTrace ---------------------------
(* Trace validation for C15: random sequences of public spectrum operations recorded from the real   *)
(* code.  Each record: op, frame (objects the operation may change by contract), changed (objects    *)
(* whose bytes differ after the call), deep (1 if the result is a deep copy), shares (older live     *)
(* objects with which the result shares memory).  Judged by the frame condition and the freshness    *)
(* rule of SpectrumOps.tla.                                                                          *)
EXTENDS Integers, Sequences, FiniteSets, SequencesExt, TLC, Json, IOUtils
Recs == ndJsonDeserialize(IOEnv.TRACE_FILE)
VARIABLE i
Bad(r) == (IF ToSet(r.changed) \subseteq ToSet(r.frame) THEN {} ELSE {"OperandsUnchanged"})
          \cup (IF r.deep = 1 /\ r.shares # <<>> THEN {"DeepIsFresh"} ELSE {})
          \cup (IF r.roundtrip = 0 THEN {"RoundTrip"} ELSE {})
TInit == i = 1
Step == /\ i <= Len(Recs)
        /\ LET r == Recs[i] B == Bad(r)
           IN IF B = {} THEN TRUE ELSE PrintT("@@" \o ToJson([id |-> r.id, clauses |-> SetToSeq(B)]))
        /\ i' = i + 1
Done == i = Len(Recs) + 1 /\ PrintT("@@" \o ToJson([done |-> TRUE, consumed |-> Len(Recs)])) /\ i' = i + 1
TSpec == TInit /\ [][Step \/ Done]_i
================================================================================
