SPECIFICATION Spec
CONSTANTS
  FLattice <- LatT
  Sizes = {2, 3, 4}
  Vals = {0, 1, 2, 3}
  Inf2 = 999
  MaxNan = 1
  Mode = "laws"
INVARIANT Laws
CHECK_DEADLOCK FALSE
