---------------------------- MODULE BalanceSession ----------------------------
(***************************************************************************************)
(* C08 / C10 / C11 over a HISTORY of one source-term balance (a generation and a        *)
(* dissipation object that live as long as the session): evaluations on several          *)
(* spectra and winds interleaved with parameter updates.  Every result must be the       *)
(* function of (operation, spectrum, wind, parameters in force) - nothing else.          *)
(*                                                                                     *)
(*   params      parameter set in force                                                 *)
(*   gridOf      the spectral grid a shape-keyed memo would hold, per object             *)
(*   lastDiss    the (spectrum, params) a memoised dissipation would hold                *)
(*   lastRough   the (spectrum, wind) a memoised roughness would hold (ignores params)   *)
(*   hist, last  history (for replay) and the last result: returned / true               *)
(* Spectra: Specs; Shape(s) groups spectra whose grids have the same shape but different *)
(* coordinate values (the interesting case for a memo keyed on shape).                   *)
(* Designs: "fresh" (the library) and three memoising variants that serve as non-vacuity  *)
(* checks: "grid_by_shape", "rough_ignores_params", "diss_by_identity_shared".           *)
(***************************************************************************************)
EXTENDS Naturals, Sequences, FiniteSets, TLC, Json

CONSTANTS Specs, Winds, ParamSets, Ops, Shape, Design, MaxOps
VARIABLES params, gridOf, lastRough, hist, last
vars == <<params, gridOf, lastRough, hist, last>>

NeedsWind(op) == op \in {"rate", "bulk", "roughness", "imbalance"}
\* what the result is a function of
True(op, s, w) == [op |-> op, spec |-> s, grid |-> s, wind |-> IF NeedsWind(op) THEN w ELSE "-", par |-> params]

InitParams == CHOOSE p \in ParamSets : TRUE
Init == /\ params = InitParams
        /\ gridOf = "none" /\ lastRough = [key |-> <<"none", "none">>, par |-> "none"]
        /\ hist = <<>> /\ last = [ret |-> 0, true |-> 0]
Room == Len(hist) < MaxOps

Eval(op, s, w) ==
    /\ Room
    /\ LET t == True(op, s, w)
           \* a memo of the spectral grid keyed on the shape only: the grid of the first spectrum of that shape is used
           g == IF Design = "grid_by_shape" /\ gridOf # "none" /\ Shape[gridOf] = Shape[s] THEN gridOf ELSE s
           \* a memo of the roughness keyed on (spectrum, wind), not on the parameters
           stale == Design = "rough_ignores_params" /\ op = "roughness" /\ lastRough.key = <<s, w>>
           r == IF stale THEN [t EXCEPT !.par = lastRough.par] ELSE [t EXCEPT !.grid = g]
       IN /\ last' = [ret |-> r, true |-> t]
          /\ gridOf' = g
          /\ lastRough' = IF op = "roughness" /\ ~stale THEN [key |-> <<s, w>>, par |-> params] ELSE lastRough
          /\ hist' = Append(hist, [op |-> op, spec |-> s, wind |-> IF NeedsWind(op) THEN w ELSE "-"])
    /\ UNCHANGED params
Update(p) ==
    /\ Room /\ p # params
    /\ params' = p
    /\ hist' = Append(hist, [op |-> "update", par |-> p])
    /\ UNCHANGED <<gridOf, lastRough, last>>
Next == (\E op \in Ops, s \in Specs, w \in Winds : Eval(op, s, w)) \/ (\E p \in ParamSets : Update(p))
Spec == Init /\ [][Next]_vars

QueriesFresh == last.ret = last.true
Interesting == Cardinality({k \in 1..Len(hist) : hist[k].op # "update"}) >= 2
Emit == (Len(hist) = MaxOps /\ Interesting) => PrintT("@@" \o ToJson([init |-> InitParams, hist |-> hist]))
================================================================================
