---------------------------- MODULE IntegrateRel ----------------------------
(* C20: the property-level relation "which integration rule may / must be used at step ii" -   *)
(* pure operators shared by Integrate.tla (model checking, case emission) and                  *)
(* IntegrateTrace.tla (validation of executions recorded from the code).                       *)
EXTENDS Integers, Sequences, FiniteSets, TLC

Abs(a) == IF a < 0 THEN -a ELSE a
\* the code's jitter test  |future - prev| > 0.01 * curr   in integers
Jit(c, p) == 100 * Abs(c - p) > c

\* --- property-level relation on a step sequence ds (any order / number of implicit points) ---
MExp(o, ni) == o - ni
\* samples used by the stencil at step ii: ii-m .. ii+ni-1; steps spanned: ii-m+1 .. ii+ni-1
\* first step spanned (the integrated step ii itself always belongs to the span)
Lo(ii, o, ni) == IF ii - MExp(o, ni) + 1 < ii THEN ii - MExp(o, ni) + 1 ELSE ii
Allowed(ds, ii, o, ni) ==
    /\ ii - MExp(o, ni) >= 0
    /\ ii + ni - 1 <= Len(ds)
    /\ \A j \in (Lo(ii, o, ni) + 1)..(ii + ni - 1) : j >= 2 => ~Jit(ds[j], ds[j - 1])
Required(ds, ii, o, ni) ==
    /\ Allowed(ds, ii, o, ni)
    /\ ii - 2 * o >= 1
    /\ ii + o <= Len(ds) \/ ni = 1
    /\ \A j \in (ii - 2 * o + 1)..(ii + ni - 1) : j >= 2 => ~Jit(ds[j], ds[j - 1])

================================================================================
