---------------------------- MODULE FileCacheTrace ----------------------------
(***************************************************************************************)
(* Trace validation for C18 / C19: every line of the ndjson trace recorded from the     *)
(* real FileCache (vlib/cachedriver.py) is one completed public call with the           *)
(* projection before (P), what the environment did (arguments, faults, contacts) and   *)
(* the projection after (Q).  Each call is judged by the property clauses of           *)
(* FileCacheClauses.tla - the same operators the state machine FileCache.tla is         *)
(* model-checked against.  All rejections of a batch are reported (one "@@" JSON line   *)
(* per rejected call); the run ends with a "@@{done...}" line counting consumed lines. *)
(* Thousands of histories per JVM start: field hid separates them.                      *)
(***************************************************************************************)
EXTENDS Naturals, Sequences, FiniteSets, TLC, Json, IOUtils, SequencesExt

Recs   == ndJsonDeserialize(IOEnv.TRACE_FILE)
Header == Recs[1]
TKey   == ToSet(Header.keys)
TSize  == [k \in TKey |-> Header.sizes[k]]

C == INSTANCE FileCacheClauses WITH Key <- TKey, SizeKB <- TSize

VARIABLES i, nbad
tvars == <<i, nbad>>

PJ(p) == [open |-> p.open, entries |-> ToSet(p.entries), files |-> p.files, max |-> p.max,
          foreign |-> p.foreign]

EnvClauses(r, P, Q) ==
    C!Failing({
      <<"EnvKeepsEntries", Q.entries = P.entries \/ r.op = "crash">>,
      \* (a crash record continues on the directory snapshot taken at the crash point)
      \* registered entries keep their contents; a file that is not an entry may still be completed by a pool
      \* worker that outlived a request that raised (none / partial -> good), nothing else may change
      \* (an "invalidate" record is the environment damaging the cached copy of r.key)
      <<"EnvKeepsContents", r.op = "crash" \/ \A k \in TKey :
            IF r.op = "invalidate" /\ k = r.key THEN TRUE
            ELSE IF k \in P.entries THEN Q.files[k].st = P.files[k].st
            ELSE Q.files[k].st \in {P.files[k].st, "good"}>>,
      <<"EnvKeepsMax", Q.max = P.max \/ r.op = "crash">>
    })

Judge(r) ==
    LET P == PJ(r.P)
        Q == PJ(r.Q)
        base ==
          CASE r.op = "get" ->
                 C!GetClauses(P, [keys |-> r.keys, result |-> r.result, paths |-> r.paths,
                                  contacted |-> ToSet(r.contacted), failed |-> ToSet(r.failed),
                                  rejected |-> ToSet(r.rejected), clean |-> r.clean,
                                  nozombie |-> r.nozombie], Q)
            [] r.op = "open"   -> C!OpenClauses(P, [result |-> r.result, evict |-> r.evict], Q)
            [] r.op = "remove" -> C!RemoveClauses(P, [key |-> r.key], Q)
            [] r.op = "purge"  -> C!PurgeClauses(P, [x |-> 0], Q)
            [] OTHER           -> EnvClauses(r, P, Q)
        \* distinct URIs never share a file / every cache file belongs to a known key
        extra == IF r.Q.unknown # 0 /\ r.op \in {"get", "open", "remove", "purge"}
                 THEN {"UnknownCacheFiles"} ELSE {}
        \* the size in force is the size a new session on this directory would start with: after every call the persisted
        \* configuration holds exactly the configured size, in bytes (a session ends without notice, there is no close)
        persisted == IF r.Q.open /\ r.op \in {"get", "open", "remove", "purge"} /\ r.Q.cfgb # r.Q.maxb
                     THEN {"ConfiguredSizePersisted"} ELSE {}
    IN base \cup extra \cup persisted

TInit == i = 2 /\ nbad = 0

Step ==
    /\ i <= Len(Recs)
    /\ LET r == Recs[i]
           F == Judge(r)
       IN /\ IF F = {} THEN TRUE
             ELSE PrintT("@@" \o ToJson([hid |-> r.hid, seq |-> r.seq, op |-> r.op, clauses |-> SetToSeq(F)]))
          /\ nbad' = nbad + (IF F = {} THEN 0 ELSE 1)
    /\ i' = i + 1

Done ==
    /\ i = Len(Recs) + 1
    /\ PrintT("@@" \o ToJson([done |-> TRUE, consumed |-> Len(Recs) - 1, rejected |-> nbad]))
    /\ i' = i + 1
    /\ UNCHANGED nbad

TSpec == TInit /\ [][Step \/ Done]_tvars
================================================================================
