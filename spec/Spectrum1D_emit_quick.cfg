SPECIFICATION Spec
CONSTANTS
  FLattice <- LatQ
  Sizes = {2, 3, 4}
  Vals = {0, 1, 3}
  Inf2 = 999
  MaxNan = 2
  Mode = "emit"
INVARIANT Laws
INVARIANT Emit
CHECK_DEADLOCK FALSE
