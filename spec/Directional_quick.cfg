SPECIFICATION Spec
CONSTANTS
  Octants <- OctQ
  Fillers <- FillQ
  NOct = {3}
  NFill = {1, 2}
  DVals = {0, 1, 2}
INVARIANT Laws
INVARIANT Emit
CHECK_DEADLOCK FALSE
