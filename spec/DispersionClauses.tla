---------------------------- MODULE DispersionClauses ----------------------------
EXTENDS Integers, Sequences, FiniteSets
(***************************************************************************************)
(* Depth classes and the index map of the spectrum accessors.  A spectrum has leading   *)
(* points i with a depth class dcls[i] in {"finite k", "inf", "nan"}; the accessor must  *)
(* return, at (i, j), the function value of (frequency j, EffDepth(dcls[i])).            *)
(***************************************************************************************)
EffDepth(c) == IF c = "nan" THEN "inf" ELSE c
\* out[i][j] and tab[c][j] are ranks (integers) of float values computed by the driver; the map is right iff equal
AccessorOK(dcls, out, tab) == \A i \in 1..Len(dcls) : out[i] = tab[EffDepth(dcls[i])]
================================================================================
