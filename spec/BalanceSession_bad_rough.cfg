SPECIFICATION Spec
CONSTANTS
  Specs <- SpecSet
  Shape <- ShapeOf
  Winds = {"w1", "w2"}
  ParamSets = {"p0", "p1"}
  Ops = {"rate", "diss", "bulk", "imbalance", "roughness", "invert"}
  Design = "rough_ignores_params"
  MaxOps = 4
INVARIANT QueriesFresh

CHECK_DEADLOCK FALSE
