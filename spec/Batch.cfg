SPECIFICATION Spec
CONSTANTS
  MaxT = 3
  MaxX = 2
  MaxF = 4
INVARIANT Bijective
INVARIANT TwoStep
INVARIANT Split
INVARIANT Emit
CHECK_DEADLOCK FALSE
