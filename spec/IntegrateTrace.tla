---------------------------- MODULE IntegrateTrace ----------------------------
(* Trace validation for C20: each ndjson record is one execution of integrate() on a recorded   *)
(* time grid: d = integer time steps (ms), obs[ii] = which candidate the increment of step ii   *)
(* equals ("T" trapezoid, "S" stencil, "B" both - they coincide -, "N" neither), start = the    *)
(* first output equals the requested start value.  Judged by the relation of IntegrateRel.tla.  *)
EXTENDS IntegrateRel, Json, IOUtils, SequencesExt

Recs == ndJsonDeserialize(IOEnv.TRACE_FILE)
VARIABLES i
BadSteps(r) == {ii \in 1..Len(r.d) :
                   \/ r.obs[ii] = "N"
                   \/ (r.obs[ii] = "S" /\ ~Allowed(r.d, ii, r.order, r.n))
                   \/ (r.obs[ii] = "T" /\ r.must = 1 /\ Required(r.d, ii, r.order, r.n))}
TInit == i = 1
Step == /\ i <= Len(Recs)
        /\ LET r == Recs[i]
               B == BadSteps(r)
           IN IF B = {} /\ r.start = 1 THEN TRUE
              ELSE PrintT("@@" \o ToJson([id |-> r.id, steps |-> SetToSeq(B), start |-> r.start]))
        /\ i' = i + 1
Done == i = Len(Recs) + 1 /\ PrintT("@@" \o ToJson([done |-> TRUE, consumed |-> Len(Recs)])) /\ i' = i + 1
TSpec == TInit /\ [][Step \/ Done]_i
================================================================================
