SPECIFICATION Spec
CONSTANTS
  MaxN = 3
  MaxV = 5
  Margin = 4
  Design = "left"
INVARIANT GeneralMeetsClauses
INVARIANT FastPathAgrees
INVARIANT ImageInvariant
INVARIANT MidpointSum
CHECK_DEADLOCK FALSE
