------------------------------- MODULE Symmetry -------------------------------
(***************************************************************************************)
(* C03 / C06 / C09 (relational part): the dihedral group acting on a uniform direction *)
(* grid  theta_j = (C/2 + j) * Delta,  j = 0..N-1,  Delta = 360 / N.                    *)
(*                                                                                     *)
(* A group element g(theta) = s * theta + k * Delta (s = +-1, k mod N) acts on a         *)
(* spectrum by (g.D)(theta) = D(g^-1(theta)), i.e. by a permutation of the direction    *)
(* bins: (g.D)[j] = D[Perm(g)[j]].  The properties say what happens to every output:    *)
(* direction parameters are mapped by g itself (d -> s*d + k*Delta mod 360), fields      *)
(* over direction are permuted the same way, everything else is unchanged.              *)
(*                                                                                     *)
(* The state machine generates the group from the identity by the two generators        *)
(* (rotate by one bin, mirror).  Invariants: Perm(g) is a bijection; the action is a    *)
(* homomorphism (Perm of a composition is the composition of the Perms); Perm agrees    *)
(* with the angle map (a spectrum concentrated in one bin moves to the bin whose        *)
(* centre is g of the old centre).  Emit prints every group element with its            *)
(* permutation; the drivers apply it to concrete spectra / moments / winds.             *)
(***************************************************************************************)
EXTENDS Integers, Sequences, FiniteSets, TLC, Json

CONSTANTS N,      \* number of direction bins
          C       \* 2 * theta_0 / Delta (0: a bin centre at 0 degrees; 1: a bin edge at 0 degrees)
VARIABLES k, s
gvars == <<k, s>>

Idx(kk, ss, j) == IF ss = 1 THEN (j - kk) % N ELSE (kk - C - j) % N      \* Perm(g)[j], 0-based
Perm(kk, ss) == [j \in 0..(N - 1) |-> Idx(kk, ss, j)]
\* composition h o g of angle maps: (s2, k2) o (s1, k1) = (s2*s1, s2*k1 + k2)
CompK(k2, s2, k1, s1) == (s2 * k1 + k2) % N
CompS(k2, s2, k1, s1) == s2 * s1

Init == k = 0 /\ s = 1
Rotate == k' = (k + 1) % N /\ s' = s                 \* R o g, R(theta) = theta + Delta
Mirror == k' = (0 - k) % N /\ s' = 0 - s             \* M o g, M(theta) = -theta
Next == Rotate \/ Mirror
Spec == Init /\ [][Next]_gvars

Bijective == {Idx(k, s, j) : j \in 0..(N - 1)} = 0..(N - 1)
\* (h.(g.D))[j] = D[Perm(g)[Perm(h)[j]]] must equal ((h o g).D)[j], for both generators h
Homomorphism ==
    /\ \A j \in 0..(N - 1) : Idx(CompK(1, 1, k, s), CompS(1, 1, k, s), j) = Idx(k, s, Idx(1, 1, j))
    /\ \A j \in 0..(N - 1) : Idx(CompK(0, 0 - 1, k, s), CompS(0, 0 - 1, k, s), j) = Idx(k, s, Idx(0, 0 - 1, j))
\* energy in bin j0 moves to the bin jn with Perm[jn] = j0; its centre is g(centre of j0), in units of Delta/2
AngleMapAgrees == \A j0 \in 0..(N - 1) :
    LET jn == CHOOSE j \in 0..(N - 1) : Idx(k, s, j) = j0
    IN (C + 2 * jn) % (2 * N) = (s * (C + 2 * j0) + 2 * k) % (2 * N)
\* an involution check: mirroring twice / rotating N times is the identity
GroupLaws == /\ Idx(CompK(k, s, k, s), CompS(k, s, k, s), 0) = Idx(k, s, Idx(k, s, 0))
             /\ (s = 0 - 1 => \A j \in 0..(N - 1) : Idx(k, s, Idx(k, s, j)) = j)

Emit == PrintT("@@" \o ToJson([N |-> N, C |-> C, k |-> k, s |-> s,
                              perm |-> [j \in 1..N |-> Idx(k, s, j - 1)], shift |-> <<k * 360, N>>]))
================================================================================
