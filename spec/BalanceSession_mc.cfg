SPECIFICATION Spec
CONSTANTS
  Specs <- SpecSet
  Shape <- ShapeOf
  Winds = {"w1", "w2"}
  ParamSets = {"p0", "p1"}
  Ops = {"rate", "diss", "bulk", "imbalance", "roughness", "invert"}
  Design = "fresh"
  MaxOps = 3
INVARIANT QueriesFresh

CHECK_DEADLOCK FALSE
