SPECIFICATION Spec
CONSTANTS
  Alphabet = {1000, 1005, 1020, 2000}
  MaxLen = 10
  EmitLen = 99
  Order = 4
  NImp = 1
  WarmUp = 4
INVARIANT HeadMay
INVARIANT HeadMust
CHECK_DEADLOCK FALSE
