SPECIFICATION Spec
CONSTANTS
  Key <- MCKey2
  SizeKB <- MCSize2
  PPKeys <- MCPP2
  ValKeys <- MCVal2
  Limits <- MCLimit1
  MB = 1000
  MaxFaults = 1
  MaxReqLen = 2
  Chunked = TRUE
  Variant = "fixed"
VIEW View
INVARIANT NoC18Violation
INVARIANT NoC19Violation
INVARIANT NoViolation
INVARIANT EntryHasFileAlways
INVARIANT FinalFilesGood
INVARIANT ForeignSafe
INVARIANT QuietSizeBound
PROPERTY MaxMonotone
CHECK_DEADLOCK FALSE
