SPECIFICATION Spec
CONSTANTS
  Specs <- SpecSet
  Shape <- ShapeOf
  Winds = {"w1", "w2"}
  ParamSets = {"p0", "p1"}
  Ops = {"invert"}
  Design = "fresh"
  MaxOps = 5
INVARIANT QueriesFresh
INVARIANT Emit
CHECK_DEADLOCK FALSE
