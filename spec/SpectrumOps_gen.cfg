SPECIFICATION Spec
CONSTANTS
  MaxObj = 6
  NF = 3
  GenDepth = 8
  Variant = "fixed"
INVARIANT Emit
INVARIANT DeepIsFresh
INVARIANT RoundTrips
CHECK_DEADLOCK FALSE
