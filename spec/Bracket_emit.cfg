SPECIFICATION Spec
CONSTANTS
  MaxN = 4
  MaxV = 6
  Margin = 8
  Design = "right"
INVARIANT GeneralMeetsClauses
INVARIANT FastPathAgrees
INVARIANT ImageInvariant
INVARIANT MidpointSum
INVARIANT Emit
CHECK_DEADLOCK FALSE
