-------------------------------- MODULE Interp --------------------------------
(***************************************************************************************)
(* C13 / C14: reference semantics of one-dimensional interpolation along a coordinate, *)
(* in exact integer / rational arithmetic.                                             *)
(*                                                                                     *)
(*   grid   g.xp   strictly monotone integer sequence (ascending or descending)        *)
(*   data   f[j]   integers given by a fixed injective pattern, g.nan[j] marks missing *)
(*   target x      integer                                                             *)
(*   P             0: ordinary coordinate (no extrapolation); 360: periodic coordinate *)
(*   mode          "linear" | "nearest"                                                *)
(*                                                                                     *)
(* Non-periodic: outside the grid -> missing; at the right end point the last value;    *)
(* otherwise the two neighbours i0, i1 with weight w = (x - xp[i0]) / (xp[i1] - xp[i0]). *)
(* Periodic: x is reduced modulo P into [xp[1], xp[1]+P) (ascending frame) and the      *)
(* neighbours are cyclic, including the bin that spans the wrap.                        *)
(* A neighbour counts if it is not missing and its weight is > 0; the result is the     *)
(* weighted mean of the counting neighbours if their weight exceeds 1/2 (strictly),     *)
(* otherwise missing.  "nearest" rounds w to 0 or 1 first (either at an exact tie).      *)
(*                                                                                     *)
(* Every TLC state is one (grid, missing mask, mode); the invariants are the laws C13 / *)
(* C14 state (exact at nodes, bounded by the neighbours, exact for affine data,        *)
(* independent of the grid's direction, 360-periodic, never missing on a periodic axis  *)
(* without missing data); Emit prints the expected outcome for every target.            *)
(***************************************************************************************)
EXTENDS Integers, Sequences, FiniteSets, FiniteSetsExt, SequencesExt, TLC, Json

CONSTANTS Lattice,    \* candidate node coordinates
          Sizes,      \* grid sizes
          Shifts,     \* offsets added to the whole grid (arbitrary start)
          Targets,    \* targets
          P,          \* 0 or the period
          MaskKind    \* "all": every missing mask, "single": at most one missing node

VARIABLES g, mode
ivars == <<g, mode>>

Abs(a) == IF a < 0 THEN -a ELSE a
RECURSIVE GCD(_, _)
GCD(a, b) == IF b = 0 THEN Abs(a) ELSE GCD(Abs(b), Abs(a) % Abs(b))
Norm(q) == LET d == GCD(q[1], q[2]) IN
           IF d = 0 THEN <<0, 1>> ELSE IF q[2] < 0 THEN <<-(q[1] \div d), -(q[2] \div d)>> ELSE <<q[1] \div d, q[2] \div d>>

F(j)  == j * j + 1                  \* injective data pattern (by node index)
NN(G) == Len(G.xp)
Asc(G) == G.xp[1] < G.xp[NN(G)]
U(G, x) == IF Asc(G) THEN x - G.xp[1] ELSE G.xp[1] - x     \* ascending frame, as the code does
UU(G, j) == U(G, G.xp[j])
Red(G, x) == IF P = 0 THEN U(G, x) ELSE U(G, x) % P
Inside(G, x) == P # 0 \/ (Red(G, x) >= 0 /\ Red(G, x) <= UU(G, NN(G)))
I0(G, x) == Max({j \in 1..NN(G) : UU(G, j) <= Red(G, x)})
AtLast(G, x) == I0(G, x) = NN(G)
I1(G, x) == IF ~AtLast(G, x) THEN I0(G, x) + 1 ELSE IF P = 0 THEN NN(G) ELSE 1
Wden(G, x) == IF ~AtLast(G, x) THEN UU(G, I0(G, x) + 1) - UU(G, I0(G, x))
              ELSE IF P = 0 THEN 1 ELSE P - UU(G, NN(G))
Wnum(G, x) == Red(G, x) - UU(G, I0(G, x))

\* outcome for weight a/b on neighbours (i0, i1) with data function D: <<"nan">> or <<"val", num, den>>
Outcome(G, D(_), i0, i1, a, b) ==
    LET v0 == ~G.nan[i0] /\ (b - a) > 0
        v1 == ~G.nan[i1] /\ a > 0
        S  == (IF v0 THEN b - a ELSE 0) + (IF v1 THEN a ELSE 0)
        T  == (IF v0 THEN (b - a) * D(i0) ELSE 0) + (IF v1 THEN a * D(i1) ELSE 0)
    IN IF 2 * S > b THEN <<"val">> \o Norm(<<T, S>>) ELSE <<"nan">>

\* the set of acceptable outcomes at target x
Accept(G, D(_), m, x) ==
    IF ~Inside(G, x) THEN {<<"nan">>}
    ELSE LET i0 == I0(G, x)  i1 == I1(G, x)  a == Wnum(G, x)  b == Wden(G, x)
         IN IF m = "linear" THEN {Outcome(G, D, i0, i1, a, b)}
            ELSE (IF 2 * a <= b THEN {Outcome(G, D, i0, i1, 0, b)} ELSE {})
                 \cup (IF 2 * a >= b THEN {Outcome(G, D, i0, i1, b, b)} ELSE {})

Rev(G) == [xp |-> Reverse(G.xp), nan |-> Reverse(G.nan)]
FRevAt(G, j) == F(NN(G) + 1 - j)

\* ----------------------------------------------------------------------------------------
SortedSeq(S) == SetToSortSeq(S, LAMBDA a, b : a < b)
GapsOK(s) == P = 0 \/ ((\A j \in 1..(Len(s) - 1) : 2 * (s[j + 1] - s[j]) < P) /\ 2 * (P - (s[Len(s)] - s[1])) < P
                        /\ s[Len(s)] - s[1] < P)
Grids == {s \in {SortedSeq(S) : S \in {T \in SUBSET Lattice : Cardinality(T) \in Sizes}} : GapsOK(s)}
MasksOf(n) == IF MaskKind = "all" THEN [1..n -> BOOLEAN]
              ELSE {[j \in 1..n |-> j = k] : k \in 0..n}

\* Cases are generated in two steps (idle -> a bare grid -> the cases on that grid) so that TLC's
\* workers share the work: a worker checks the invariants of the states it generates.
Idle == [xp |-> <<0, 1>>, nan |-> <<FALSE, FALSE>>]
Init == g = Idle /\ mode = "idle"
Next == \/ /\ mode = "idle"
           /\ \E s \in Grids : g' = [xp |-> s, nan |-> [j \in 1..Len(s) |-> FALSE]]
           /\ mode' = "grid"
        \/ /\ mode = "grid"
           /\ \E sh \in Shifts, d \in BOOLEAN :
                 LET t == [j \in 1..Len(g.xp) |-> g.xp[j] + sh]
                 IN \E mk \in MasksOf(Len(t)) : g' = [xp |-> IF d THEN t ELSE Reverse(t), nan |-> mk]
           /\ mode' \in {"linear", "nearest"}
Spec == Init /\ [][Next]_ivars

Fd(j) == F(j)
Leaf == mode \in {"linear", "nearest"}
\* laws --------------------------------------------------------------------------------------
NodeExact == Leaf => (\A j \in 1..NN(g) : ~g.nan[j] => Accept(g, Fd, mode, g.xp[j]) = {<<"val", F(j), 1>>})
Bounded == Leaf => (\A x \in Targets : \A o \in Accept(g, Fd, mode, x) :
              o[1] = "val" => LET lo == Min({F(I0(g, x)), F(I1(g, x))})  hi == Max({F(I0(g, x)), F(I1(g, x))})
                              IN lo * o[3] <= o[2] /\ o[2] <= hi * o[3])
NoExtrapolation == Leaf => (P = 0 => \A x \in Targets : (x < Min(Range(g.xp)) \/ x > Max(Range(g.xp))) => Accept(g, Fd, mode, x) = {<<"nan">>})
AffineExact == Leaf => ((mode = "linear" /\ P = 0 /\ \A j \in 1..NN(g) : ~g.nan[j]) =>
                 \A x \in Targets : Inside(g, x) =>
                    Accept(g, LAMBDA j : 3 * g.xp[j] + 7, mode, x) = {<<"val", 3 * x + 7, 1>>})
DirectionIndependent == Leaf => (\A x \in Targets : Accept(Rev(g), LAMBDA j : FRevAt(g, j), mode, x) = Accept(g, Fd, mode, x))
Periodic == Leaf => (P # 0 => \A x \in Targets : /\ Accept(g, Fd, mode, x + P) = Accept(g, Fd, mode, x)
                                       /\ Accept(g, Fd, mode, x - 2 * P) = Accept(g, Fd, mode, x)
                                       /\ ((\A j \in 1..NN(g) : ~g.nan[j]) => <<"nan">> \notin Accept(g, Fd, mode, x))
)
TargetSeq == SortedSeq(Targets)
Emit == Leaf => (PrintT("@@" \o ToJson([xp |-> g.xp, nan |-> [j \in 1..NN(g) |-> IF g.nan[j] THEN 1 ELSE 0], mode |-> mode,
                              f |-> [j \in 1..NN(g) |-> F(j)], period |-> P, x |-> TargetSeq,
                              exp |-> [k \in 1..Len(TargetSeq) |-> SetToSeq(Accept(g, Fd, mode, TargetSeq[k]))],
                              \* second data pattern j * F(j): used for energy-weighted moments of spectra
                              exp2 |-> [k \in 1..Len(TargetSeq) |-> SetToSeq(Accept(g, LAMBDA j : j * F(j), mode, TargetSeq[k]))]])))
================================================================================
