SPECIFICATION ESpec
CONSTANTS
  FLattice <- LatE
  Sizes = {3, 4}
  Vals = {0, 1, 16, 81}
  Inf2 = 999
  MaxNan = 1
  Mode = "emit"
INVARIANT ELaws
INVARIANT EEmit
CHECK_DEADLOCK FALSE
