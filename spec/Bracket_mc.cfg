SPECIFICATION Spec
CONSTANTS
  MaxN = 4
  MaxV = 7
  Margin = 9
  Design = "right"
INVARIANT GeneralMeetsClauses
INVARIANT FastPathAgrees
INVARIANT ImageInvariant
INVARIANT MidpointSum
CHECK_DEADLOCK FALSE
