SPECIFICATION Spec
CONSTANTS
  N = 24
  C = 0
INVARIANT Bijective
INVARIANT Homomorphism
INVARIANT AngleMapAgrees
INVARIANT GroupLaws
INVARIANT Emit
CHECK_DEADLOCK FALSE
