SPECIFICATION Spec
CONSTANTS
  NPts = 4
  MaxIter = 10
  MaxLevel = 2
  Exit = "all"
  Emit = TRUE
INVARIANT Residual
INVARIANT InDomain
INVARIANT SameCount
INVARIANT EmitCase
CHECK_DEADLOCK FALSE
