---------------------------- MODULE MCFileCache ----------------------------
EXTENDS FileCache
\* "ax" is resource a under a comment suffix, requested with a postprocess directive;
\* "b" is requested with a validate directive.
MCKey    == {"a", "ax", "b", "c"}
MCSize   == [k \in MCKey |-> IF k = "c" THEN 600 ELSE 300]
MCPP     == {"ax"}
MCVal    == {"b"}
MCLimits == {750, 1050}
MCLimit1 == {750}
MCKey2   == {"b", "c"}
MCSize2  == [k \in MCKey2 |-> IF k = "c" THEN 600 ELSE 300]
MCPP2    == {"c"}
MCVal2   == {"b"}
MCKey3   == {"a", "b", "c"}
MCSize3  == [k \in MCKey3 |-> IF k = "c" THEN 600 ELSE 300]
MCPP3    == {"a"}
MCVal3   == {"b"}
=============================================================================
