SPECIFICATION Spec
CONSTANTS
  MaxN = 5
  MaxV = 8
  Margin = 10
  Design = "right"
INVARIANT GeneralMeetsClauses
INVARIANT FastPathAgrees
INVARIANT ImageInvariant
INVARIANT MidpointSum
INVARIANT Emit
CHECK_DEADLOCK FALSE
