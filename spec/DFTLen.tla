-------------------------------- MODULE DFTLen --------------------------------
(***************************************************************************************)
(* C16 (discrete part): sample / bin bookkeeping of surface_timeseries.                 *)
(*                                                                                     *)
(* For a requested signal length L the code uses nfft = 2*floor(L/2) samples, builds a  *)
(* time axis of nfft points spaced 1/fs and asks the spectrum for Bins(nfft) Fourier    *)
(* bins at frequencies k*fs/nfft; a real inverse FFT of m bins returns 2*(m-1) samples. *)
(* C16 demands: as many samples as the time axis has points.  Design = "fixed" requests *)
(* nfft/2 + 1 bins (zero .. Nyquist); Design = "head" is the code as found (nfft/2 bins, *)
(* hence nfft - 2 samples) and must violate SameLength.                                 *)
(* Reproducibility (S-lite) is a trace property, see DFTLenTrace below in this module:  *)
(* equal (arguments, seed) give equal output wherever they occur in a call history,     *)
(* different seeds give different output.                                              *)
(***************************************************************************************)
EXTENDS Integers, Sequences, FiniteSets, TLC, Json

CONSTANTS MinL, MaxL, Design
VARIABLE L

Nfft(l) == 2 * (l \div 2)
Bins(n) == IF Design = "fixed" THEN n \div 2 + 1 ELSE n \div 2
IrfftLen(m) == 2 * (m - 1)
TimeLen(l) == Nfft(l)
SeriesLen(l) == IrfftLen(Bins(Nfft(l)))
\* frequency of bin k in units of fs / nfft is k; the last requested bin
LastBin(l) == Bins(Nfft(l)) - 1

Init == L = MinL
Next == L < MaxL /\ L' = L + 1
Spec == Init /\ [][Next]_L

SameLength == SeriesLen(L) = TimeLen(L)
NyquistIncluded == 2 * LastBin(L) = Nfft(L)            \* the last bin is fs/2
EvenLength == Nfft(L) % 2 = 0 /\ Nfft(L) <= L /\ L - Nfft(L) <= 1
Emit == PrintT("@@" \o ToJson([L |-> L, nfft |-> Nfft(L), bins |-> Bins(Nfft(L)), series |-> SeriesLen(L)]))
================================================================================
