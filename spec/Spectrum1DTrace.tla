--------------------------- MODULE Spectrum1DTrace ---------------------------
(* Trace validation for C01 / C04: moments and peak indices recorded from the code on random      *)
(* integer spectra (up to 12 frequencies) are re-evaluated with the operators of Spectrum1D.tla. *)
(* record: f, e, nan (0/1), lo2, hi2, m2[n+1] = 2 * m_n as returned (integer; -1 = the code's      *)
(* value was not the expected kind of number), pk = returned peak index (1-based)               *)
EXTENDS MCSpectrum1D, IOUtils

Recs == ndJsonDeserialize(IOEnv.TRACE_FILE)
VARIABLE i
tv == <<i, f, e, nan, stage>>
NanOf(r) == [j \in 1..Len(r.nan) |-> r.nan[j] = 1]
Bad(r) == {n \in 0..4 : Moment2(r.f, r.e, NanOf(r), n, r.lo2, r.hi2) # r.m2[n + 1]}
          \cup (IF PeakDefined(r.f, r.e, NanOf(r), r.lo2, r.hi2) /\ PeakIdx(r.f, r.e, NanOf(r), r.lo2, r.hi2) # r.pk
                THEN {99} ELSE {})
TInit == i = 1 /\ f = <<0, 1>> /\ e = <<0, 0>> /\ nan = <<FALSE, FALSE>> /\ stage = "idle"
Step == /\ i <= Len(Recs)
        /\ LET r == Recs[i]  B == Bad(r)
           IN IF B = {} THEN TRUE
              ELSE PrintT("@@" \o ToJson([id |-> r.id, bad |-> SetToSeq(B),
                     expect |-> [n \in 1..5 |-> Moment2(r.f, r.e, NanOf(r), n - 1, r.lo2, r.hi2)],
                     pk |-> IF PeakDefined(r.f, r.e, NanOf(r), r.lo2, r.hi2) THEN PeakIdx(r.f, r.e, NanOf(r), r.lo2, r.hi2) ELSE 0]))
        /\ i' = i + 1 /\ UNCHANGED <<f, e, nan, stage>>
Done == i = Len(Recs) + 1 /\ PrintT("@@" \o ToJson([done |-> TRUE, consumed |-> Len(Recs)])) /\ i' = i + 1 /\ UNCHANGED <<f, e, nan, stage>>
TSpec == TInit /\ [][Step \/ Done]_tv
================================================================================
