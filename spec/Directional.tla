------------------------------ MODULE Directional ------------------------------
(***************************************************************************************)
(* C02: directional integration of a frequency-direction spectrum in exact arithmetic. *)
(*                                                                                     *)
(*   dir    direction grid, integer degrees, cyclically ordered (any start), gaps < 180 *)
(*   Step   wrapped forward difference: the width of bin j is dir[j+1] - dir[j]        *)
(*          (the last bin wraps to dir[1]); the widths always sum to 360                *)
(*   E      sum over bins of D[j] * Step[j], missing densities counted as zero         *)
(*   moments on "octant grids": energy only in bins whose angle is a multiple of 45     *)
(*          degrees, with any number of empty / missing filler bins at other angles    *)
(*          (they change the widths, not the trigonometry).  cos / sin of k*45 degrees  *)
(*          are in {0, +-1, +-r}, r = sqrt(2)/2, so every numerator is P + Q*r with     *)
(*          integers P, Q; second harmonics are integers.                               *)
(*                                                                                     *)
(* TLC enumerates grids (subsets of octant angles + filler angles, every rotation of    *)
(* the start index), densities and missing masks; invariants: widths positive and sum  *)
(* to 360, |a1|,|b1|,|a2|,|b2| <= 1 and a1^2 + b1^2 <= 1 (exact comparisons in Z[r]);   *)
(* Emit prints widths, E and the (P, Q) numerators.                                    *)
(***************************************************************************************)
EXTENDS Integers, Sequences, FiniteSets, FiniteSetsExt, SequencesExt, TLC, Json

CONSTANTS Octants,      \* octant indices 0..7 that may carry energy (angle = 45 * k)
          Fillers,      \* filler angles (integers, not multiples of 45)
          NOct, NFill,  \* sets of allowed numbers of octant / filler bins
          DVals         \* densities of octant bins

VARIABLES dir, D, nan, stage
dvars == <<dir, D, nan, stage>>

N == Len(dir)
SumOver(S, F(_)) == FoldSet(LAMBDA x, acc : acc + F(x), 0, S)
Wrap(x) == ((x + 180) % 360) - 180
Step(d, j) == Wrap((IF j < Len(d) THEN d[j + 1] ELSE d[1]) - d[j])
Val(j) == IF nan[j] THEN 0 ELSE D[j]
E1 == SumOver(1..N, LAMBDA j : (Val(j) * Step(dir, j)) \div 15)     \* in units of U = 15 degrees

IsOct(a) == a % 45 = 0
K(a) == (a % 360) \div 45
\* cos(45 k) = CP + CQ * r
CosP(k) == CASE k = 0 -> 1 [] k = 4 -> 0 - 1 [] OTHER -> 0
CosQ(k) == CASE k \in {1, 7} -> 1 [] k \in {3, 5} -> 0 - 1 [] OTHER -> 0
SinP(k) == CosP((k + 6) % 8)
SinQ(k) == CosQ((k + 6) % 8)
Cos2(k) == CASE k % 4 = 0 -> 1 [] k % 4 = 2 -> 0 - 1 [] OTHER -> 0
Sin2(k) == CASE k % 4 = 1 -> 1 [] k % 4 = 3 -> 0 - 1 [] OTHER -> 0
\* all angles are multiples of U degrees: weights are kept in units of U (keeps squares inside 32 bits)
U == 15
W(j) == (Val(j) * Step(dir, j)) \div U
OctBins == {j \in 1..N : IsOct(dir[j])}
A1P == SumOver(OctBins, LAMBDA j : W(j) * CosP(K(dir[j])))
A1Q == SumOver(OctBins, LAMBDA j : W(j) * CosQ(K(dir[j])))
B1P == SumOver(OctBins, LAMBDA j : W(j) * SinP(K(dir[j])))
B1Q == SumOver(OctBins, LAMBDA j : W(j) * SinQ(K(dir[j])))
A2 == SumOver(OctBins, LAMBDA j : W(j) * Cos2(K(dir[j])))
B2 == SumOver(OctBins, LAMBDA j : W(j) * Sin2(K(dir[j])))

\* exact comparison  P + Q*r <= X  (r = sqrt(2)/2), all integers
Leq(P, Q, X) == LET x == X - P IN
    IF Q >= 0 THEN (x >= 0 /\ Q * Q <= 2 * x * x) ELSE (x >= 0 \/ Q * Q >= 2 * x * x)
AbsLeq(P, Q, X) == Leq(P, Q, X) /\ Leq(0 - P, 0 - Q, X)

SortedSeq(S) == SetToSortSeq(S, LAMBDA x, y : x < y)
Rot(s, k) == [j \in 1..Len(s) |-> s[((j - 1 + k) % Len(s)) + 1]]
GapsOK(s) == \A j \in 1..Len(s) : Step(s, j) > 0
Angles == {A \in SUBSET ({45 * k : k \in Octants} \cup Fillers) :
             /\ Cardinality({x \in A : IsOct(x)}) \in NOct
             /\ Cardinality({x \in A : ~IsOct(x)}) \in NFill}
Grids == {s \in {SortedSeq(A) : A \in Angles} : Len(s) >= 3 /\ GapsOK(s)}

Init == dir = <<0, 120, 240>> /\ D = <<0, 0, 0>> /\ nan = <<FALSE, FALSE, FALSE>> /\ stage = "idle"
Next == \/ stage = "idle" /\ dir' \in Grids /\ D' = D /\ nan' = nan /\ stage' = "grid"
        \/ /\ stage = "grid"
           /\ \E k \in 0..(N - 1), off \in {0, 360, 0 - 360, 1} :
                LET d2 == Rot(dir, k)
                    \* an arbitrary start: the grid may be given in any window of 360 degrees (monotone), or
                    \* (off = 1) with every angle reduced into [0, 360): the branch cut then falls inside the array
                    d3 == IF off = 1 THEN d2
                          ELSE [j \in 1..N |-> IF d2[j] < d2[1] THEN d2[j] + 360 + off ELSE d2[j] + off]
                IN /\ dir' = d3
                   /\ D' \in [1..N -> DVals]
                   /\ nan' \in {m \in [1..N -> BOOLEAN] : \A j \in 1..N : (IsOct(d3[j]) => ~m[j])}
                   /\ \A j \in 1..N : (~IsOct(d3[j])) => D'[j] = 0
           /\ stage' = "case"
Spec == Init /\ [][Next]_dvars
Leaf == stage = "case"

Abs2OK == (A2 <= E1 /\ 0 - A2 <= E1 /\ B2 <= E1 /\ 0 - B2 <= E1 /\ A2 * A2 + B2 * B2 <= E1 * E1)
Laws == Leaf =>
    /\ \A j \in 1..N : Step(dir, j) > 0 /\ Step(dir, j) % U = 0
    /\ SumOver(1..N, LAMBDA j : Step(dir, j)) = 360
    /\ E1 >= 0
    /\ AbsLeq(A1P, A1Q, E1) /\ AbsLeq(B1P, B1Q, E1) /\ Abs2OK
    \* a1^2 + b1^2 <= 1  <=>  2(A1P^2+B1P^2) + A1Q^2 + B1Q^2 + 4(A1P*A1Q + B1P*B1Q) r <= 2 E^2
    /\ Leq(2 * (A1P * A1P + B1P * B1P) + A1Q * A1Q + B1Q * B1Q, 4 * (A1P * A1Q + B1P * B1Q), 2 * E1 * E1)

Emit == Leaf => PrintT("@@" \o ToJson([dir |-> dir, D |-> D, nan |-> [j \in 1..N |-> IF nan[j] THEN 1 ELSE 0],
                                      step |-> [j \in 1..N |-> Step(dir, j)], E |-> U * E1,
                                      a1 |-> <<U * A1P, U * A1Q>>, b1 |-> <<U * B1P, U * B1Q>>, a2 |-> U * A2, b2 |-> U * B2]))
================================================================================
