SPECIFICATION Spec
CONSTANTS
  Key <- MCKey
  SizeKB <- MCSize
  PPKeys <- MCPP
  ValKeys <- MCVal
  Limits <- MCLimits
  MB = 1000
  MaxFaults = 0
  MaxReqLen = 2
  Chunked = TRUE
  Variant = "fixed"
VIEW View
INVARIANT NoC18Violation
INVARIANT NoC19Violation
INVARIANT NoViolation
INVARIANT EntryHasFileAlways
INVARIANT FinalFilesGood
INVARIANT ForeignSafe
INVARIANT QuietSizeBound
PROPERTY MaxMonotone
CHECK_DEADLOCK FALSE
