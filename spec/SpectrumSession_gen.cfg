SPECIFICATION SSpec
CONSTANTS
  FLattice <- LatE
  Sizes = {3, 4, 5}
  Vals = {0, 1, 2, 3}
  Inf2 = 999
  MaxNan = 1
  Mode = "laws"
  Design = "fresh"
  MaxOps = 6
INVARIANT QueriesFresh
INVARIANT EmitHist
CHECK_DEADLOCK FALSE
