SPECIFICATION Spec
CONSTANTS
  Lattice <- LatQ
  Sizes = {2, 3, 4}
  Shifts <- Shift0
  Targets <- TgtQ
  P = 0
  MaskKind = "all"
INVARIANT NodeExact
INVARIANT Bounded
INVARIANT NoExtrapolation
INVARIANT AffineExact
INVARIANT DirectionIndependent
INVARIANT Periodic
INVARIANT Emit
CHECK_DEADLOCK FALSE
