------------------------------- MODULE Stencil -------------------------------
(***************************************************************************************)
(* C20, part 1: the Newton-Cotes-like integration weights of                           *)
(* tools/time_integration.integration_stencil(order, n) in exact rational arithmetic.  *)
(*                                                                                     *)
(* Nodes are x_i = i - m, i = 0..order-1, m = order - n (n "implicit" points at        *)
(* offsets 0..n-1, m explicit points at offsets -m..-1); the step integrated is [-1,0]. *)
(* W(i) = integral over [-1,0] of the i-th Lagrange basis polynomial.                  *)
(*                                                                                     *)
(* The TLC "state space" is the table of all (order, n) pairs; the invariants are the  *)
(* algebraic laws C20 states: the weights sum to one and integrate every polynomial of *)
(* degree < order exactly.  Exactness is checked on the binomial basis C(x+m, p)       *)
(* (values at the nodes are C(i,p) <= 35, which keeps every product inside TLC's       *)
(* 32-bit integers); its exact integral is computed by a second route (expanding the   *)
(* falling factorial), so the check is not circular.  Emit prints the exact weights    *)
(* <<numerators>>/den, which the driver compares with the code's floats.               *)
(***************************************************************************************)
EXTENDS Integers, Sequences, FiniteSets, FiniteSetsExt, TLC, Json

CONSTANT MaxOrder
VARIABLES order, n
svars == <<order, n>>

Abs(a) == IF a < 0 THEN -a ELSE a
RECURSIVE GCD(_, _)
GCD(a, b) == IF b = 0 THEN Abs(a) ELSE GCD(Abs(b), Abs(a) % Abs(b))
LCM(a, b) == (a \div GCD(a, b)) * b
Norm(q) == LET g == GCD(q[1], q[2])
               s == IF q[2] < 0 THEN -1 ELSE 1
           IN IF g = 0 THEN <<0, 1>> ELSE <<s * (q[1] \div g), s * (q[2] \div g)>>

RECURSIVE LcmUpTo(_)
LcmUpTo(k) == IF k = 1 THEN 1 ELSE LCM(LcmUpTo(k - 1), k)

\* Sum / product over finite index sets (FoldSet is evaluated by a Java override: no recursion)
SumOver(S, F(_))  == FoldSet(LAMBDA x, acc : acc + F(x), 0, S)
ProdOver(S, F(_)) == FoldSet(LAMBDA x, acc : acc * F(x), 1, S)

\* The monic polynomial with roots r[1..d] (r a sequence): the coefficient of x^(d-k) is
\* (-1)^k e_k(r), e_k the k-th elementary symmetric polynomial (sum over k-subsets of indices).
Elem(r, k) == LET d == Len(r)
                  subs == {S \in SUBSET (1..d) : Cardinality(S) = k}
              IN SumOver(subs, LAMBDA S : ProdOver(S, LAMBDA j : r[j]))
CoefX(r, k) == LET d == Len(r) IN (IF (d - k) % 2 = 0 THEN 1 ELSE -1) * Elem(r, d - k)   \* coefficient of x^k

\* L * integral_{-1}^{0} prod_j (x - r[j]) dx, for L a common multiple of 1..Len(r)+1
IntTimes(r, L) == SumOver(0..Len(r), LAMBDA k : CoefX(r, k) * (IF k % 2 = 0 THEN 1 ELSE -1) * (L \div (k + 1)))

M(o, nn) == o - nn                        \* number of explicit points
Node(o, nn, i) == i - M(o, nn)
OtherNodes(o, nn, i) == [j \in 1..(o - 1) |-> Node(o, nn, IF j - 1 < i THEN j - 1 ELSE j)]
Den(o, nn, i) == ProdOver(1..(o - 1), LAMBDA j : Node(o, nn, i) - OtherNodes(o, nn, i)[j])

\* exact weight i (0-based) as a reduced fraction <<num, den>>
W(o, nn, i) == LET L == LcmUpTo(o)
               IN Norm(<<IntTimes(OtherNodes(o, nn, i), L), Den(o, nn, i) * L>>)

\* the whole table for one (order, n): [ws |-> reduced weights, den |-> common denominator, num |-> numerators]
Table(o, nn) ==
    LET ws == [i \in 0..(o - 1) |-> W(o, nn, i)]
        B  == FoldSet(LAMBDA i, acc : LCM(acc, ws[i][2]), 1, 0..(o - 1))
    IN [ws |-> ws, den |-> B, num |-> [i \in 0..(o - 1) |-> ws[i][1] * (B \div ws[i][2])]]

RECURSIVE Binom(_, _)
Binom(a, b) == IF b = 0 THEN 1 ELSE IF a < b THEN 0 ELSE (Binom(a - 1, b - 1) * a) \div b
Fact(k) == ProdOver(1..k, LAMBDA j : j)

SumOne(o, T) == SumOver(0..(o - 1), LAMBDA i : T.num[i]) = T.den

\* quadrature applied to q_p(x) = C(x + m, p) equals the exact integral of q_p over [-1, 0]
ExactOn(o, nn, T, p) ==
    LET m    == M(o, nn)
        lhs  == Norm(<<SumOver(0..(o - 1), LAMBDA i : T.num[i] * Binom(i, p)), T.den>>)
        \* p! * q_p(x) = (x + m)(x + m - 1)...(x + m - p + 1): roots -(m - j), j = 0..p-1
        roots == [j \in 1..p |-> -(m - (j - 1))]
        L    == LcmUpTo(p + 1)
        rhs  == Norm(<<IntTimes(roots, L), L * Fact(p)>>)
    IN lhs = rhs

Exact(o, nn, T) == \A p \in 0..(o - 1) : ExactOn(o, nn, T, p)

Init == order \in 1..MaxOrder /\ n \in 1..MaxOrder /\ n <= order
Next == UNCHANGED svars
Spec == Init /\ [][Next]_svars

Inv == LET T == Table(order, n)
       IN /\ Assert(SumOne(order, T), <<"weights do not sum to one", order, n>>)
          /\ Assert(Exact(order, n, T), <<"not exact below the order", order, n>>)
          /\ PrintT("@@" \o ToJson([order |-> order, n |-> n, den |-> T.den,
                                    num |-> [i \in 1..order |-> T.num[i - 1]]]))
================================================================================
