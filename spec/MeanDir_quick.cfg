SPECIFICATION MSpec
CONSTANTS
  FLattice <- LatM
  Sizes = {2, 3}
  Vals = {1, 2}
  Inf2 = 999
  MaxNan = 0
  Mode = "emit"
  PQ <- MCPQ
INVARIANT MLaws
INVARIANT MEmit
CHECK_DEADLOCK FALSE
