SPECIFICATION GSpec
CONSTANTS
  Key <- MCKey
  SizeKB <- MCSize
  PPKeys <- MCPP
  ValKeys <- MCVal
  Limits <- MCLimits
  MB = 1000
  MaxFaults = 2
  MaxReqLen = 3
  Chunked = FALSE
  Variant = "fixed"
  GenDepth = 40
  GenCrash = TRUE
INVARIANT Emit
INVARIANT NoViolation
CONSTRAINT Bound
CHECK_DEADLOCK FALSE
