SPECIFICATION Spec
CONSTANTS
  Names = {"a", "b", "dflt"}
  Dirs = {"p1", "p2", "pd"}
  Keys = {"k1", "k2"}
  Default = "dflt"
  DefaultDir = "pd"
  Design = "lib"
  StrictRaises = TRUE
  MaxOps = 9
INVARIANT NoSharedDirectory
INVARIANT EntriesEqualFiles
INVARIANT Emit
CHECK_DEADLOCK FALSE
