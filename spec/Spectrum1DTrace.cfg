SPECIFICATION TSpec
CONSTANTS
  FLattice <- LatQ
  Sizes = {2}
  Vals = {0}
  Inf2 = 999
  MaxNan = 0
  Mode = "laws"
CHECK_DEADLOCK FALSE
