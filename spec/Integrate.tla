------------------------------ MODULE Integrate ------------------------------
(***************************************************************************************)
(* C20, part 2: which rule tools/time_integration.integrate may / must use at each     *)
(* step of a sampled signal (default stencil: order 4, one implicit point).            *)
(*                                                                                     *)
(* Property-level acceptance relation, per step ii >= 1 (step ii goes from sample      *)
(* ii-1 to sample ii, d[ii] = t[ii] - t[ii-1]):                                        *)
(*    the increment is the trapezoidal increment, or - only if allowed - the stencil   *)
(*    increment;                                                                       *)
(*    Allowed(ii):  the stencil's samples ii-m .. ii+n-1 exist and no two consecutive  *)
(*                  steps among the steps they span differ by more than 1 %            *)
(*                  ("trapezoidal rule wherever the time step jitters ... and near the  *)
(*                  ends");                                                            *)
(*    Required(ii): Allowed and the 2*order steps behind ii are free of jitter as well *)
(*                  ("fourth-order stencil on uniformly sampled stretches"; where the   *)
(*                  implementation resumes the stencil after a jitter is its choice,    *)
(*                  2*order leaves room for any reasonable warm-up).                    *)
(*                                                                                     *)
(* The state machine appends one time step at a time from a small alphabet (nominal,   *)
(* jitter < 1 %, jitter > 1 %, gap) and carries the restart automaton of the code as   *)
(* found (restart flag, counter, previous step).  TLC checks over all step sequences   *)
(* up to MaxLen that the automaton's choice is accepted by the relation, and emits     *)
(* every sequence of length EmitLen with its Allowed / Required masks for the driver.  *)
(***************************************************************************************)
EXTENDS IntegrateRel, Json

CONSTANTS Alphabet, MaxLen, EmitLen, Order, NImp, WarmUp
VARIABLES d, restart, cnt, prev, choice
ivars == <<d, restart, cnt, prev, choice>>

\* --- the restart automaton of the code (ni = 1: the "future" step is the current step) ---
Init == d = <<>> /\ restart = TRUE /\ cnt = 0 /\ prev = 0 /\ choice = <<>>

Extend(x) ==
    /\ Len(d) < MaxLen
    /\ LET p    == IF d = <<>> THEN x ELSE prev          \* prev_dt starts as time[1]-time[0]
           jit  == Jit(x, p)
           r1   == restart \/ jit
           c1   == IF jit THEN 0 ELSE cnt
           c2   == IF r1 THEN c1 + 1 ELSE c1
           use  == IF r1 THEN "T" ELSE "S"
           r2   == IF r1 /\ c2 = WarmUp THEN FALSE ELSE r1   \* the code: WarmUp = stencil width
       IN /\ d' = Append(d, x)
          /\ restart' = r2 /\ cnt' = c2 /\ prev' = x
          /\ choice' = Append(choice, use)

Next == \E x \in Alphabet : Extend(x)
Spec == Init /\ [][Next]_ivars

\* the automaton never uses the stencil where the relation forbids it
HeadMay == \A ii \in 1..Len(d) : choice[ii] = "S" => Allowed(d, ii, Order, 1)
\* and always uses it where the relation demands it (judged when enough future is known)
HeadMust == \A ii \in 1..Len(d) : Required(d, ii, Order, 1) => choice[ii] = "S"

Emit == Len(d) = EmitLen =>
          PrintT("@@" \o ToJson([d |-> d,
                                 allowed |-> [ii \in 1..Len(d) |-> Allowed(d, ii, Order, NImp)],
                                 required |-> [ii \in 1..Len(d) |-> Required(d, ii, Order, NImp)]]))
================================================================================
