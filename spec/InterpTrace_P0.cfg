SPECIFICATION TSpec
CONSTANTS
  Lattice <- LatQ
  Sizes = {2}
  Shifts <- Shift0
  Targets <- TgtQ
  P = 0
  MaskKind = "single"
CHECK_DEADLOCK FALSE
