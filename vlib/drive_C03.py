"""C03 - Mean/peak direction and spread follow their definitions and rotate with the sea."""
import json
import math
import os
import random
import shutil

from vlib import common
from vlib import session_common as ssn
from vlib import spec1d_common as sc1
from vlib import spec1d_common as sc

PID = "C03"
MAXSPREAD = math.degrees(math.sqrt(2.0))


def in_sector(d, sec, tol=1e-9):
    lo, hi = sec
    if lo - tol <= d <= hi + tol:
        return True
    # +-180 are the same direction
    if (lo == 180 and abs(d + 180) <= tol) or (lo == -180 and hi == -135 and abs(d - 180) <= tol):
        return True
    if hi == 180 and abs(d + 180) <= tol:
        return True
    return False


def angdiff(a, b):
    return (a - b + 180.0) % 360.0 - 180.0


def run(tier):
    quick = tier == "quick"
    chk = common.Check(PID, "exploration", tier)
    rng = random.Random(chk.seed + 3)
    common.setup_numba_cache()
    import numpy as np
    from ocean_science_utilities.wavespectra.spectrum import create_1d_spectrum, create_2d_spectrum
    evals, nontrivial = 0, 0
    distinct = set()
    # ---- A. definitions: exact band averages, sector of the mean direction ----------------------------------
    r = common.run_tlc("MCMeanDir", "MeanDir_quick.cfg" if quick else "MeanDir_thorough.cfg", workers=16, timeout=7200)
    chk.tlc(r, "1D spectra with moments on a lattice inside the unit disc x bands: sector of atan2(TB,TA), symmetry laws of the sector, |A|,|B|<=1")
    if r.violated:
        chk.violation("model:%s" % r.violated, "MeanDir reference violates its own laws", {"tlc": r.out[-1500:]})
    elif not r.ok:
        chk.machinery("TLC failed on MeanDir: %s" % r.error)
    cases = [json.loads(p) for p in r.prints]
    chk.set("emitted_cases", len(cases))
    if cases:
        c = cases[len(cases) // 2]
        chk.sample({"emitted_case": {"f": c["f"], "e": c["e"], "pq": c["pq"], "bands": c["bands"][:2], "perfreq": c["perfreq"]}})
    by = {}
    for c in cases:
        by.setdefault(tuple(c["f"]), []).append(c)
    for fk, grp in by.items():
        if quick and len(grp) > 600:
            grp = rng.sample(grp, 600)
        for start in range(0, len(grp), 200):
            g = grp[start:start + 200]
            B, nf = len(g), len(fk)
            f = np.array(fk, dtype="float64")
            E = np.array([[float(v) for v in c["e"]] for c in g])
            a1 = np.array([[p[0] / 4.0 for p in c["pq"]] for c in g])
            b1 = np.array([[p[1] / 4.0 for p in c["pq"]] for c in g])
            z = np.zeros_like(a1)
            ctx = {"f": list(fk)}
            try:
                s = create_1d_spectrum(f, E, np.arange(B) * 3600, np.zeros(B), np.zeros(B), a1=a1, b1=b1, a2=z, b2=z, depth=np.full(B, np.inf))
                pf_dir = s.mean_direction_per_frequency.values
                pf_spr = s.mean_spread_per_frequency.values
            except Exception as ex:
                chk.violation("raise:build:%s" % type(ex).__name__, "building / per-frequency direction raised", dict(ctx, error=str(ex)[:300]))
                continue
            nb = len(g[0]["bands"])
            for bi in range(nb):
                fmin, fmax = sc.band_of(g[0]["bands"][bi])
                try:
                    with np.errstate(all="ignore"):
                        md = s.mean_direction(fmin, fmax).values
                        ms = s.mean_directional_spread(fmin, fmax).values
                        ma, mb = s.mean_a1(fmin, fmax).values, s.mean_b1(fmin, fmax).values
                except Exception as ex:
                    chk.violation("raise:mean_direction:%s" % type(ex).__name__, "mean direction / spread raised %s" % type(ex).__name__,
                                  dict(ctx, band=[fmin, fmax], error=str(ex)[:300]))
                    break
                evals += B
                stop = False
                # peak variants: the moments AT the peak index of the band (the index itself is C04's subject)
                try:
                    with np.errstate(all="ignore"):
                        pk = s.peak_index(fmin, fmax).values
                        pd_, ps_ = s.peak_direction(fmin, fmax).values, s.peak_directional_spread(fmin, fmax).values
                except Exception:
                    pk = None          # an all-missing / empty band makes argmax raise: outside the quantifier
                if pk is not None:
                    for i, c in enumerate(g):
                        inband = [j for j in range(nf) if fmin <= f[j] < fmax]
                        if not inband or max(c["e"][j] for j in inband) <= 0:
                            continue
                        j = int(pk[i])
                        wd, ws = float(pf_dir[i, j]), float(pf_spr[i, j])
                        gd, gs = float(pd_[i]), float(ps_[i])
                        if (not math.isnan(wd) and abs(angdiff(gd, wd)) > 1e-9) or (not math.isnan(ws) and abs(gs - ws) > 1e-9):
                            chk.violation("peak-variant", "peak direction / spread are not the direction / spread at the peak frequency of the band",
                                          dict(ctx, e=c["e"], pq=c["pq"], band=[fmin, fmax], peak_index=j, got=[gd, gs], at_peak=[wd, ws]))
                            stop = True
                            break
                if stop:
                    break
                for i, c in enumerate(g):
                    b = c["bands"][bi]
                    if b["m0"] <= 0:
                        continue
                    A, Bq = b["ta"] / (4.0 * b["m0"]), b["tb"] / (4.0 * b["m0"])
                    cc = dict(ctx, e=c["e"], pq=c["pq"], band=[fmin, fmax], A=A, B=Bq)
                    if abs(float(ma[i]) - A) > 1e-12 or abs(float(mb[i]) - Bq) > 1e-12:
                        chk.violation("band-average", "band-averaged a1/b1 are not the energy-weighted averages", dict(cc, got=[float(ma[i]), float(mb[i])]))
                        stop = True
                        break
                    d, sp = float(md[i]), float(ms[i])
                    distinct.add((tuple(fk), tuple(c["e"]), tuple(map(tuple, c["pq"])), bi))
                    if b["sector"][0] != 999:
                        ok = in_sector(d, b["sector"]) and abs(Bq * math.cos(math.radians(d)) - A * math.sin(math.radians(d))) <= 1e-12 \
                            and -180.0 <= d <= 180.0
                        if not ok:
                            chk.violation("mean-direction", "mean direction is not atan2(B, A) in degrees (outside the sector the exact moments fix)",
                                          dict(cc, got=d, sector=b["sector"]))
                            stop = True
                            break
                        nontrivial += 1
                    r2 = A * A + Bq * Bq
                    srad = math.radians(sp)
                    if not (abs((1.0 - srad * srad / 2.0) ** 2 - r2) <= 1e-11 and -1e-12 <= sp <= MAXSPREAD + 1e-9):
                        chk.violation("mean-spread", "directional spread is not sqrt(2(1-sqrt(A^2+B^2))) in degrees", dict(cc, got=sp, r2=r2))
                        stop = True
                        break
                if stop:
                    break
            for i, c in enumerate(g):
                for j in range(nf):
                    sec = c["perfreq"][j]
                    d = float(pf_dir[i, j])
                    p, q = c["pq"][j]
                    if sec[0] != 999 and not (in_sector(d, sec) and abs(q * math.cos(math.radians(d)) - p * math.sin(math.radians(d))) <= 1e-11):
                        chk.violation("per-frequency-direction", "per-frequency direction is not atan2(b1, a1)", dict(ctx, pq=c["pq"][j], got=d, sector=sec))
                        break
                    srad = math.radians(float(pf_spr[i, j]))
                    if abs((1 - srad * srad / 2.0) ** 2 - (p * p + q * q) / 16.0) > 1e-11:
                        chk.violation("per-frequency-spread", "per-frequency spread does not follow its definition", dict(ctx, pq=c["pq"][j], got=float(pf_spr[i, j])))
                        break
                else:
                    continue
                break

    # ---- B. rotation / mirror equivariance (Symmetry.tla supplies the group and the bin permutations) -----------------
    Ns = [8, 24, 36] if quick else [8, 12, 16, 24, 36, 72, 144]
    for N in Ns:
        for C in (0, 1):
            els = common.symmetry_elements(chk, N, C)
            delta = 360.0 / N
            dirs = (C / 2.0 + np.arange(N)) * delta
            nspec = 2 if quick else 5
            for rep in range(nspec):
                nf = 6
                f = np.array([0.05, 0.08, 0.11, 0.15, 0.2, 0.3])
                B = 2
                vd = np.zeros((B, nf, N))
                for b in range(B):
                    for i in range(nf):
                        c0, w0, a0 = rng.uniform(0, 360), rng.uniform(15, 70), rng.uniform(0.2, 2)
                        c1, w1, a1_ = rng.uniform(0, 360), rng.uniform(15, 70), rng.uniform(0, 0.6)
                        vd[b, i, :] = a0 * np.exp(-(((dirs - c0 + 180) % 360 - 180) / w0) ** 2) + a1_ * np.exp(-(((dirs - c1 + 180) % 360 - 180) / w1) ** 2)
                        if rng.random() < 0.2:
                            vd[b, i, rng.randrange(N)] = 0.0
                base = create_2d_spectrum(f, dirs, vd, np.arange(B) * 3600, np.zeros(B), np.zeros(B), depth=np.full(B, np.inf))
                band = rng.choice([(0.0, np.inf), (0.07, 0.25)])

                def params(s):
                    with np.errstate(all="ignore"):
                        return {"mean_direction": s.mean_direction(*band).values, "peak_direction": s.peak_direction(*band).values,
                                "dir_per_f": s.mean_direction_per_frequency.values,
                                "mean_spread": s.mean_directional_spread(*band).values, "peak_spread": s.peak_directional_spread(*band).values,
                                "spread_per_f": s.mean_spread_per_frequency.values,
                                "hm0": s.hm0(*band).values, "tm01": s.tm01(*band).values, "tm02": s.tm02(*band).values,
                                "peak_frequency": s.peak_frequency(*band).values}
                try:
                    p0 = params(base)
                except Exception as ex:
                    chk.violation("raise:params:%s" % type(ex).__name__, "direction parameters raised %s" % type(ex).__name__, {"N": N, "error": str(ex)[:300]})
                    break
                sel = els if (not quick or N <= 8) else rng.sample(els, 12)
                for el in sel:
                    perm = np.array(el["perm"])
                    shift = el["shift"][0] / el["shift"][1]
                    sgn = el["s"]
                    rot = create_2d_spectrum(f, dirs, vd[:, :, perm], np.arange(B) * 3600, np.zeros(B), np.zeros(B), depth=np.full(B, np.inf))
                    p1 = params(rot)
                    evals += 1
                    distinct.add(("sym", N, C, el["k"], el["s"], rep))
                    ctx = {"N": N, "C": C, "k": el["k"], "s": el["s"], "band": [band[0], float(band[1])]}
                    for name in ("mean_direction", "peak_direction", "dir_per_f"):
                        exp = sgn * np.asarray(p0[name]) + shift
                        dd = np.abs(angdiff(np.asarray(p1[name]), exp))
                        if np.nanmax(dd) > 1e-7:
                            chk.violation("equivariance:%s" % name, "%s does not rotate / mirror with the spectrum" % name,
                                          dict(ctx, before=np.asarray(p0[name]).tolist(), after=np.asarray(p1[name]).tolist(), shift=shift))
                        a = np.asarray(p1[name])
                        if np.nanmin(a) < -180 - 1e-9 or np.nanmax(a) > 180 + 1e-9:
                            chk.violation("range:%s" % name, "%s outside [-180, 180]" % name, dict(ctx, values=a.tolist()))
                    for name in ("mean_spread", "peak_spread", "spread_per_f", "hm0", "tm01", "tm02", "peak_frequency"):
                        if not np.allclose(np.asarray(p1[name]), np.asarray(p0[name]), rtol=1e-9, atol=1e-9, equal_nan=True):
                            chk.violation("invariance:%s" % name, "%s changes when the spectrum is rotated / mirrored" % name,
                                          dict(ctx, before=np.asarray(p0[name]).tolist(), after=np.asarray(p1[name]).tolist()))
                    nontrivial += 1
    # histories of one object (SpectrumSession.tla behaviours): directions / spreads after queries interleaved with in-place changes
    sessions = sc1.tlc_sessions(chk, quick, chk.seed)
    nrep, nq = ssn.freshness_replay(chk, sessions[:70] if quick else sessions, rng, [("1d", ssn.build_1d), ("2d/8 directions", ssn.build_2d)],
                                    [("mean_direction", lambda s, lo, hi: s.mean_direction(lo, hi)), ("mean_directional_spread", lambda s, lo, hi: s.mean_directional_spread(lo, hi)),
                                     ("peak_direction", lambda s, lo, hi: s.peak_direction(lo, hi)), ("peak_directional_spread", lambda s, lo, hi: s.peak_directional_spread(lo, hi)),
                                     ("mean_direction_per_frequency", lambda s, lo, hi: s.mean_direction_per_frequency)], "C03")
    chk.add("spec_traces_replayed", nrep)
    chk.set("session_queries_compared", nq)
    evals += nq
    chk.set("evaluations", evals)
    chk.set("distinct_nontrivial", len(distinct))
    chk.assume("the specification decides: band averages A,B exactly, the 45 degree sector (exact direction on the 8 boundaries), the group "
               "action and the predicted map of every output; tan / spread identities inside the sector are float comparisons (1e-11)")
    chk.assume("peak direction under rotation compares spectra whose peak is unique (random smooth lobes)")
    return chk.finish(rule="TLC enumerates moment lattices x grids x bands (definition part) and every element of the dihedral group for "
                           "N in %s, C in {0,1} (rotation part); each element's bin permutation is applied to random two-lobe spectra; "
                           "distinct = distinct (spectrum, band) definition cases + distinct (N, C, k, s, spectrum) equivariance cases" % Ns)


def replay(path):
    with open(path) as fp:
        print(fp.read()[:4000])
    return 0
