"""C17 - Time conversions denote the same UTC instant for every input representation."""
import json
import os
import random
import shutil
from datetime import datetime, timedelta, timezone

from vlib import common

PID = "C17"
EPOCH = datetime(1970, 1, 1, tzinfo=timezone.utc)


def fields(dt):
    return [dt.year, dt.month, dt.day, dt.hour, dt.minute, dt.second, dt.microsecond]


def off_str(off, colon=True):
    sign = "+" if off >= 0 else "-"
    a = abs(off)
    return "%s%02d%s%02d" % (sign, a // 60, ":" if colon else "", a % 60)


def representations(loc, us, off, utc, epoch_s):
    """yield (name, value, floor) for one instant; loc/utc are [y,m,d,h,mi,s] lists"""
    import numpy as np
    import pandas as pd
    import xarray
    tz = timezone(timedelta(minutes=off))
    ly, lm, ld, lh, lmi, ls = loc
    uy, um, ud, uh, umi, usec = utc
    frac = (".%06d" % us) if us else ""
    liso = "%04d-%02d-%02dT%02d:%02d:%02d" % tuple(loc)
    uiso = "%04d-%02d-%02dT%02d:%02d:%02d" % tuple(utc)
    yield "aware_datetime", datetime(ly, lm, ld, lh, lmi, ls, us, tzinfo=tz), 0
    yield "naive_datetime", datetime(uy, um, ud, uh, umi, usec, us), 0
    yield "iso_Z", uiso + frac + "Z", 0
    yield "iso_offset", liso + frac + off_str(off), 0
    yield "iso_nozone", uiso + frac, 0
    yield "strftime_form", liso + ".%06d" % us + off_str(off, colon=False), 0
    if us == 0:
        yield "epoch_int", int(epoch_s), 0
        yield "numpy_int64", np.int64(epoch_s), 0
    if us in (0, 125000, 500000):      # exactly representable fractions
        yield "epoch_float", float(epoch_s) + us / 1e6, 0
        yield "numpy_float64", np.float64(epoch_s) + us / 1e6, 0
        yield "ndarray_float", np.array([float(epoch_s) + us / 1e6]), 0
        yield "dataarray_float", xarray.DataArray(np.array([float(epoch_s) + us / 1e6]), dims=["t"], coords={"t": [7]}), 0
        yield "series_float", pd.Series([float(epoch_s) + us / 1e6], index=["x"]), 0
        yield "list_float", [float(epoch_s) + us / 1e6], 0
    if us == 0:
        yield "ndarray_int", np.array([int(epoch_s)], dtype="int64"), 0
    naive = datetime(uy, um, ud, uh, umi, usec, us)
    for unit in ("s", "ms", "us", "ns"):
        yield "datetime64[%s]" % unit, np.datetime64(naive, unit), 1
    yield "list", [uiso + frac + "Z"], 0
    yield "tuple", (datetime(ly, lm, ld, lh, lmi, ls, us, tzinfo=tz),), 0
    yield "ndarray_dt64", np.array([np.datetime64(naive, "ns")]), 1
    yield "dataarray", xarray.DataArray(np.array([np.datetime64(naive, "ns")])), 1
    yield "series", pd.Series([np.datetime64(naive, "ns")]), 1


def run(tier):
    quick = tier == "quick"
    chk = common.Check(PID, "model_checking", tier)
    rng = random.Random(chk.seed + 17)
    # the property does not depend on the process time zone: run in a zone far from UTC so that a
    # naive / local-time confusion in the code cannot hide behind TZ=UTC
    import time as _time
    os.environ["TZ"] = "VRF-05:45"
    _time.tzset()
    chk.assume("process time zone set to UTC+05:45 for the run")
    import numpy as np
    from ocean_science_utilities.tools import time as T
    work = common.scratch_dir("c17")
    evals, distinct = 0, set()
    try:
        # 1. TLC: calendar laws on every day 1970..2100 + emitted boundary cases -----------------
        r = common.run_tlc("MCTimeConv", "TimeConv_quick.cfg" if quick else "TimeConv_thorough.cfg",
                           workers=1, timeout=3600)
        chk.tlc(r, "every day 1970-01-01..2100-12-31: closed-form calendar = plain calendar rules, inverse, "
                   "offset round trip for 11 offsets, packed date integers")
        if r.violated:
            chk.violation("model:%s" % r.violated, "calendar model violates %s" % r.violated, {"tlc": r.out[-1500:]})
        elif not r.ok:
            chk.machinery("TLC failed on TimeConv: %s" % r.error)
        cases = [json.loads(p) for p in r.prints]
        chk.set("emitted_cases", len(cases))
        if cases:
            chk.sample({"emitted_case": cases[len(cases) // 2]})

        def check(name, value, floor, utc, us, ctx):
            nonlocal evals
            evals += 1
            try:
                got = T.to_datetime_utc(value)
            except Exception as e:
                chk.violation("raise:%s" % name, "to_datetime_utc raised %s for %s" % (type(e).__name__, name),
                              dict(ctx, rep=name, value=repr(value)))
                return None
            if isinstance(got, list):
                if len(got) != 1:
                    chk.violation("len:%s" % name, "sequence length changed", dict(ctx, rep=name))
                    return None
                got = got[0]
            exp = utc + [0 if floor else us]
            ok = isinstance(got, datetime) and got.tzinfo is not None and \
                got.utcoffset() == timedelta(0) and fields(got) == exp
            if not ok:
                chk.violation("conv:%s" % name, "%s converts to a different instant / not UTC-aware" % name,
                              dict(ctx, rep=name, value=repr(value), expected=exp,
                                   got=fields(got) if isinstance(got, datetime) else repr(got)))
            return got

        for c in cases:
            utc, loc, us, off = c["utc"], c["loc"], c["us"], c["off"]
            epoch_s = c["days"] * 86400 + c["sod"]
            ctx = {"case": c}
            distinct.add((c["days"], c["sod"], us, off))
            for name, value, floor in representations(loc, us, off, utc, epoch_s):
                got = check(name, value, floor, utc, us, ctx)
            # round trips
            inst = datetime(*utc, us, tzinfo=timezone.utc)
            d64 = T.to_datetime64(inst)
            back = T.to_datetime_utc(d64)
            evals += 2
            if fields(back) != utc + [0] or str(d64.dtype) != "datetime64[ns]":
                chk.violation("roundtrip:datetime64", "to_datetime64 and back does not return the instant (whole seconds)",
                              dict(ctx, got=fields(back), dtype=str(d64.dtype)))
            # ... from every representation (scalars and containers): the same instant to whole seconds
            want64 = np.datetime64(datetime(*utc), "s")
            for name, value, _floor in representations(loc, us, off, utc, epoch_s):
                evals += 1
                try:
                    g64 = T.to_datetime64(value)
                    g = np.atleast_1d(np.asarray(g64))
                    ok64 = g.shape == (1,) and np.issubdtype(g.dtype, np.datetime64) and g[0].astype("datetime64[s]") == want64
                except Exception as e:
                    chk.violation("raise:to_datetime64:%s" % name, "to_datetime64 raised %s for %s" % (type(e).__name__, name),
                                  dict(ctx, rep=name, value=repr(value)))
                    continue
                if not ok64:
                    chk.violation("to_datetime64:%s" % name, "to_datetime64 of %s is a different instant (whole seconds)" % name,
                                  dict(ctx, rep=name, value=repr(value), expected=str(want64), got=repr(g64)))
            s = T.datetime_to_iso_time_string(inst)
            back = T.to_datetime_utc(s)
            if fields(back) != utc + [us]:
                chk.violation("roundtrip:iso", "datetime_to_iso_time_string and parsing does not return the instant",
                              dict(ctx, string=s, got=fields(back)))
        # formatter / parser round trip on random fractions (leading zeros of the fraction included)
        for j in range(300 if quick else 5000):
            usr = rng.choice([rng.randint(1, 99), rng.randint(100, 99999), rng.randint(100000, 999999), 10 ** rng.randint(0, 5)])
            inst = datetime(2000 + rng.randint(0, 60), rng.randint(1, 12), rng.randint(1, 28), rng.randint(0, 23), rng.randint(0, 59),
                            rng.randint(0, 59), usr, tzinfo=timezone(timedelta(minutes=rng.choice([0, 0, 330, -480, 765]))))
            evals += 1
            try:
                sj = T.datetime_to_iso_time_string(inst)
                bj = T.to_datetime_utc(sj)
                okj = bj == inst
            except Exception as e:
                sj, bj, okj = "raised %s" % type(e).__name__, None, False
            if not okj:
                chk.violation("roundtrip:iso-fraction", "datetime_to_iso_time_string and parsing does not return the instant (fractional seconds)",
                              {"instant": inst.isoformat(), "string": sj, "parsed": bj.isoformat() if bj else None})
                break
        # heterogeneous sequence, None
        if cases:
            c = cases[0]
            mixed = [v for _n, v, _f in representations(c["loc"], 0, c["off"], c["utc"], c["days"] * 86400 + c["sod"])
                     if not isinstance(v, (list, tuple)) and not hasattr(v, "shape") or isinstance(v, np.datetime64)]
            got = T.to_datetime_utc(mixed)
            evals += 1
            if not all(fields(g) == c["utc"] + [0] for g in got):
                chk.violation("mixed-sequence", "heterogeneous sequence converts to different instants",
                              {"case": c, "got": [fields(g) for g in got]})
        if T.to_datetime_utc(None) is not None or T.to_datetime64(None) is not None or \
                T.datetime_to_iso_time_string(None) is not None:
            chk.violation("none", "None is not mapped to None", {})

        # 2. code -> spec: random instants + every packed integer, validated by TLC ------------------
        path = os.path.join(work, "c17.ndjson")
        nrec, recs = 0, {}
        offsets = [-720, -570, -210, -60, 0, 60, 330, 345, 525, 765, 840]
        with open(path, "w") as fp:
            n_rand = 1500 if quick else 40000
            for j in range(n_rand):
                days = rng.randint(0, 47846)
                sod = rng.choice([0, 1, 86399, rng.randint(0, 86399)])
                us = rng.choice([0, 0, 125000, 500000, rng.randint(1, 999999)])
                off = rng.choice(offsets)
                utc_dt = EPOCH + timedelta(days=days, seconds=sod)   # only used to *build* inputs
                loc_dt = utc_dt + timedelta(minutes=off)
                if loc_dt.year < 1970 or loc_dt.year > 2100:
                    continue
                loc, utc = fields(loc_dt)[:6], fields(utc_dt)[:6]
                reps = list(representations(loc, us, off, utc, days * 86400 + sod))
                name, value, floor = rng.choice(reps)
                try:
                    got = T.to_datetime_utc(value)
                    if isinstance(got, list):
                        got = got[0]
                    g = fields(got) if (got.tzinfo is not None and got.utcoffset() == timedelta(0)) else [0] * 7
                except Exception as e:
                    chk.violation("raise:%s" % name, "to_datetime_utc raised %s" % type(e).__name__,
                                  {"rep": name, "value": repr(value)})
                    continue
                evals += 1
                rec = {"k": "conv", "id": nrec, "loc": loc, "us": us, "off": off, "floor": floor, "rep": name, "got": g}
                recs[nrec] = (rec, repr(value))
                fp.write(json.dumps(rec) + "\n")
                nrec += 1
                distinct.add((days, sod, us, off))
            # packed dates: every day (quick: every 7th day + all month ends)
            ts, ds = [], []
            for z in range(0, 47847):
                d = EPOCH + timedelta(days=z)
                if quick and not (z % 7 == 0 or d.day in (1, 28, 29, 30, 31)):
                    continue
                for t in [d.year * 10000 + d.month * 100 + d.day] + \
                         ([(d.year - 2000) * 10000 + d.month * 100 + d.day] if 2000 <= d.year <= 2099 else []):
                    try:
                        res = T.date_from_dateint(t)
                        dd = (res - EPOCH).days if res.tzinfo is not None and res.utcoffset() == timedelta(0) else -1
                    except Exception:
                        dd = -2
                    ts.append(t)
                    ds.append(dd)
                    evals += 1
                if len(ts) >= 400:
                    rec = {"k": "dates", "id": nrec, "t": ts, "days": ds}
                    recs[nrec] = (rec, "")
                    fp.write(json.dumps(rec) + "\n")
                    nrec += 1
                    ts, ds = [], []
            if ts:
                rec = {"k": "dates", "id": nrec, "t": ts, "days": ds}
                recs[nrec] = (rec, "")
                fp.write(json.dumps(rec) + "\n")
                nrec += 1
            # packed times: every unambiguous value
            ts, ss = [], []
            allt = [h for h in range(0, 24)] + [h * 100 + m for h in range(1, 24) for m in range(60)] + \
                   [h * 10000 + m * 100 + s for h in range(1, 24) for m in range(60)
                    for s in (range(60) if not quick else (0, 1, 30, 59))]
            for t in allt:
                try:
                    sec = int(T.time_from_timeint(t).total_seconds())
                except Exception:
                    sec = -1
                ts.append(t)
                ss.append(sec)
                evals += 1
                if len(ts) >= 1000:
                    rec = {"k": "times", "id": nrec, "t": ts, "sec": ss}
                    recs[nrec] = (rec, "")
                    fp.write(json.dumps(rec) + "\n")
                    nrec += 1
                    ts, ss = [], []
            if ts:
                rec = {"k": "times", "id": nrec, "t": ts, "sec": ss}
                recs[nrec] = (rec, "")
                fp.write(json.dumps(rec) + "\n")
                nrec += 1
            # combined date + time integers through the public helper
            for j in range(200):
                z = rng.randint(0, 47846)
                d = EPOCH + timedelta(days=z)
                h, m, s = rng.randint(1, 23), rng.randint(0, 59), rng.randint(0, 59)
                res = T.datetime_from_time_and_date_integers(d.year * 10000 + d.month * 100 + d.day, h * 10000 + m * 100 + s)
                res64 = T.datetime_from_time_and_date_integers(d.year * 10000 + d.month * 100 + d.day, h * 10000 + m * 100 + s,
                                                               as_datetime64=True)
                back = T.to_datetime_utc(res64)
                evals += 2
                rec = {"k": "conv", "id": nrec, "loc": [d.year, d.month, d.day, h, m, s], "us": 0, "off": 0, "floor": 0,
                       "rep": "date+time integers", "got": fields(res) if fields(res) == fields(back) else [0] * 7}
                recs[nrec] = (rec, "")
                fp.write(json.dumps(rec) + "\n")
                nrec += 1
        rt = common.run_tlc("TimeConvTrace", "TimeConvTrace.cfg", workers=1, timeout=3600, env={"TRACE_FILE": path})
        done = None
        for p in rt.prints:
            d = json.loads(p)
            if d.get("done"):
                done = d
                continue
            rec, val = recs[d["id"]]
            if d["k"] == "conv":
                chk.violation("trace-conv:%s" % rec["rep"], "recorded conversion (%s) denotes a different instant" % rec["rep"],
                              {"record": rec, "value": val, "expected_by_spec": d["expect"]})
            else:
                bad = [(rec["t"][j - 1], (rec.get("days") or rec.get("sec"))[j - 1]) for j in d["bad"][:5]]
                chk.violation("trace-%s" % d["k"], "packed integer decoded to other calendar fields: %s" % bad,
                              {"bad": bad})
        if done is None or done["consumed"] != nrec:
            chk.machinery("TimeConvTrace did not consume the trace: %s" % (rt.error or rt.out[-600:]))
        chk.set("traces_validated_against_impl", nrec)

        # binding demonstration
        demo = os.path.join(work, "demo.ndjson")
        with open(demo, "w") as fp:
            fp.write(json.dumps({"k": "conv", "id": 0, "loc": [2024, 2, 29, 23, 30, 0], "us": 0, "off": 60, "floor": 0,
                                 "rep": "demo", "got": [2024, 2, 29, 23, 30, 0, 0]}) + "\n")
        rd = common.run_tlc("TimeConvTrace", "TimeConvTrace.cfg", workers=1, timeout=300, env={"TRACE_FILE": demo})
        rej = [json.loads(p) for p in rd.prints if '"bad"' in p]
        okdemo = bool(rej) and rej[0]["expect"] == [2024, 2, 29, 22, 30, 0, 0]
        chk.set("binding_demo", {"corrupted_rejected": okdemo})
        if not okdemo:
            chk.machinery("binding demonstration failed")

        chk.set("evaluations", evals)
        chk.set("distinct_nontrivial", len(distinct))
        chk.assume("instants 1970-01-01 .. 2100-12-31; representations listed in DESIGN.md C17; epoch floats only with "
                   "exactly representable fractions (0, 1/8, 1/2 s)")
        return chk.finish(rule="TLC walks every day of 1970..2100; cases on month boundaries of selected years x "
                               "seconds-of-day x fractions x 11 offsets x 18 representations; random instants and every "
                               "packed integer validated by TimeConvTrace; distinct = distinct (day, second, fraction, offset)")
    finally:
        shutil.rmtree(work, ignore_errors=True)


def replay(path):
    with open(path) as fp:
        print(fp.read()[:4000])
    return 0
