"""C07 - Wavenumber solver inverts the dispersion relation; group velocity is consistent."""
import contextlib
import json
import math
import os
import random
import shutil
import sys

from vlib import common

PID = "C07"
G = 9.81
TOL = 1e-3


@contextlib.contextmanager
def quiet_fd1():
    """the numba-compiled solver prints 'No convergence' with C stdio when the iteration limit is hit on purpose"""
    sys.stdout.flush()
    saved = os.dup(1)
    null = os.open(os.devnull, os.O_WRONLY)
    try:
        os.dup2(null, 1)
        yield
    finally:
        try:
            import ctypes
            ctypes.CDLL(None).fflush(None)
        except Exception:
            pass
        os.dup2(saved, 1)
        os.close(saved)
        os.close(null)


def omega(k, d):
    import numpy as np
    with np.errstate(all="ignore"):
        return np.sqrt(G * k * np.tanh(k * d))


def dwdk(k, d):
    """analytic derivative of the dispersion relation, robust for kd -> 0 and kd -> inf"""
    import numpy as np
    with np.errstate(all="ignore"):
        kd = k * d
        t = np.tanh(kd)
        sech2 = np.where(kd > 300, 0.0, 1.0 / np.cosh(np.minimum(kd, 300.0)) ** 2)
        kdsech2 = np.where(np.isinf(kd), 0.0, kd * sech2)
        return G * (t + kdsech2) / (2.0 * np.sqrt(G * k * t))


class Trace:
    def __init__(self, path):
        self.path, self.recs = path, {}
        self.fp = open(path, "w")

    def add(self, rec):
        rec["id"] = len(self.recs)
        self.recs[rec["id"]] = rec
        self.fp.write(json.dumps(rec) + "\n")

    def validate(self, chk, binding=False):
        self.fp.close()
        r = common.run_tlc("DispersionTrace", "DispersionTrace.cfg", workers=1, timeout=3600, env={"TRACE_FILE": self.path})
        done, rejected, differs, confusable = None, [], 0, 0
        for p in r.prints:
            d = json.loads(p)
            if d.get("done"):
                done = d
                continue
            if d["clauses"]:
                rejected.append((self.recs[d["id"]], d["clauses"]))
            differs += 1 if d["differs"] else 0
            confusable += 1 if d["confusable"] else 0
        if done is None or done["consumed"] != len(self.recs):
            chk.machinery("DispersionTrace did not consume the trace: %s" % (r.error or r.out[-500:]))
        if binding:
            return rejected
        for rec, clauses in rejected:
            ctx = {k: v for k, v in rec.items() if k not in ("match",)}
            chk.violation("trace:%s:%s" % (rec.get("what", rec["kind"]), "+".join(clauses)),
                          "recorded %s violates %s" % (rec.get("what", rec["kind"]), clauses), {"record": ctx, "clauses": clauses})
        chk.add("traces_validated_against_impl", len(self.recs))
        chk.set("model_conformance_differences", differs)
        if confusable:
            chk.machinery("%d accessor records cannot tell the depth classes apart (vacuous index-map clause)" % confusable)
        return rejected


def run(tier):
    quick = tier == "quick"
    chk = common.Check(PID, "exploration", tier)
    rng = random.Random(chk.seed + 7)
    common.setup_numba_cache()
    import numpy as np
    from ocean_science_utilities.wavetheory import lineardispersion as ld
    from ocean_science_utilities.wavespectra.spectrum import create_1d_spectrum, create_2d_spectrum
    work = common.scratch_dir("c07")
    evals, distinct = 0, set()
    try:
        # ---- (1) the iteration-control model and its wrong designs -------------------------------------------------------
        r = common.run_tlc("Dispersion", "Dispersion_mc.cfg", workers=8, timeout=1800)
        chk.tlc(r, "solver iteration control, 3 points x levels 0..10 x 10 steps: Residual, InDomain, SameCount, NoRegress")
        if r.violated:
            chk.violation("model:%s" % r.violated, "Dispersion model violates %s" % r.violated, {"tlc": r.out[-1500:]})
        elif not r.ok:
            chk.machinery("TLC failed on Dispersion_mc: %s" % r.error)
        for variant in ("any", "first"):
            rv = common.run_tlc("Dispersion", "Dispersion_%s.cfg" % variant, workers=4, timeout=600)
            if rv.violated != "Residual":
                chk.machinery("non-vacuity: the '%s' exit rule was not rejected by Residual (%s)" % (variant, rv.violated or rv.error))
        chk.set("non_vacuity_variants_rejected", ["any", "first"])
        re_ = common.run_tlc("Dispersion", "Dispersion_emit.cfg", workers=1, timeout=600)
        chk.tlc(re_, "emission of level mixes")
        cases = [json.loads(p) for p in re_.prints]
        if not re_.ok or not cases:
            chk.machinery("TLC emission failed: %s" % re_.error)
        tr = Trace(os.path.join(work, "c07.ndjson"))

        def solve(w, d, **kw):
            return np.asarray(ld.inverse_intrinsic_dispersion_relation(w, d, **kw), dtype="float64")

        def residual_ok(k, w, d):
            with np.errstate(all="ignore"):
                return np.abs(omega(k, d) - w) <= TOL * w

        def call_record(what, w, d, k, lvl=None, steps=None):
            w, d, k = np.atleast_1d(w).astype(float), np.atleast_1d(d).astype(float), np.atleast_1d(k)
            d = np.broadcast_to(d, w.shape)
            pos = ((k > 0) & np.isfinite(k)).astype(int).tolist()
            res = residual_ok(k, w, d).astype(int).tolist()
            rec = {"kind": "call", "what": what, "pos": pos, "res": res, "same": [1] * len(pos)}
            if steps is not None:
                with quiet_fd1():
                    klim = solve(w, d, maximum_number_of_iterations=int(steps))
                rec["same"] = [1 if a == b else 0 for a, b in zip(k.tolist(), klim.tolist())]
                rec["lvl"], rec["steps"] = lvl, steps
            bad = [i for i in range(len(pos)) if not (pos[i] and res[i])]
            if bad:
                rec["worst"] = [{"w": float(w[i]), "d": (float(d[i]) if math.isfinite(d[i]) else "inf"), "k": float(k[i]),
                                 "kd": float(k[i] * d[i]) if math.isfinite(d[i]) else "inf"} for i in bad[:5]]
            tr.add(rec)

        def rnd_w():
            return math.exp(rng.uniform(math.log(3e-3), math.log(50.0)))

        def rnd_d(p_inf=0.1):
            return math.inf if rng.random() < p_inf else math.exp(rng.uniform(math.log(1e-2), math.log(1e4)))

        # ---- (2) pool of concrete points classified by the number of steps each needs alone ----------------------------------
        pool = {}
        npool = 400 if quick else 40000
        cand = [(rnd_w(), rnd_d()) for _ in range(npool)]
        # the transition regions: first-guess switch (kd ~ 1) and derivative switch (kd ~ 5)
        for _ in range(npool // 2):
            d = rnd_d(0.0)
            kd = rng.choice([rng.uniform(0.3, 3.0), rng.uniform(4.0, 6.5), rng.uniform(0.02, 0.3), rng.uniform(6.5, 25.0)])
            k = kd / d
            w = float(omega(np.array(k), np.array(d)))
            if 3e-3 <= w <= 50.0:
                cand.append((w, d))
        wc, dc = np.array([c[0] for c in cand]), np.array([c[1] for c in cand])
        with quiet_fd1():
            level = np.full(len(cand), -1)
            for n in range(0, 11):
                # element-wise: does the point meet the tolerance after n steps?  (each point alone: 1-element arrays
                # would cost one call per point; stepping an array n times applies the same n steps to every point)
                kn = solve(wc, dc, maximum_number_of_iterations=n, tolerance=0.0)
                with np.errstate(all="ignore"):
                    ok = np.abs(omega(kn, dc) - wc) / wc < TOL
                level = np.where((level < 0) & ok, n, level)
        evals += 11 * len(cand)
        for i, lv in enumerate(level.tolist()):
            pool.setdefault(lv, []).append(cand[i])
        chk.set("pool_levels", {str(k): len(v) for k, v in sorted(pool.items())})
        if -1 in pool:
            for w, d in pool[-1][:3]:
                chk.violation("no-convergence", "a point of the domain is not within 1e-3 after 10 Newton steps",
                              {"w": w, "d": d if math.isfinite(d) else "inf"})
        maxlvl = max(k for k in pool if k >= 0)
        # ---- (3) spec -> code: every level mix the model emits, on concrete points, in every order ----------------------------
        replayed = skipped = 0
        for c in cases:
            lv = c["lvl"]
            if any(x not in pool for x in lv):
                skipped += 1
                continue
            for rep in range(2 if quick else 40):
                pts = [rng.choice(pool[x]) for x in lv]
                order = list(range(len(pts)))
                rng.shuffle(order)
                w = np.array([pts[o][0] for o in order])
                d = np.array([pts[o][1] for o in order])
                k = solve(w, d)
                evals += len(w)
                call_record("solver on a mix of levels %s" % [lv[o] for o in order], w, d, k, lvl=[lv[o] for o in order], steps=c["steps"])
                replayed += 1
                distinct.add(("mix", tuple(lv[o] for o in order)))
        chk.add("spec_traces_replayed", replayed)
        chk.set("emitted_cases_without_concrete_points", skipped)
        chk.set("highest_level_observed", int(maxlvl))
        # ---- (4) code -> spec: large arrays mixing regimes, scalars, infinite depth ------------------------------------------
        for rep in range(20 if quick else 2000):
            n = rng.choice([1, 2, 7, 100, 2000])
            form = rng.choice(["scalar", "array"]) if n == 1 else "array"
            w = np.array([rnd_w() for _ in range(n)])
            dkind = rng.choice(["mixed", "same", "inf"])
            d = np.array([rnd_d() for _ in range(n)]) if dkind == "mixed" else np.full(n, rnd_d(0.0) if dkind == "same" else np.inf)
            if rep % 5 == 0:
                w[0], d[0] = (3e-3, 1e-2) if rep % 2 else (50.0, 1e4)
            if form == "scalar":
                k = solve(float(w[0]), float(d[0]))
            else:
                k = solve(w, d)
            evals += n
            if k.shape != w.shape:
                chk.violation("shape", "result does not have one wavenumber per input", {"n": n, "form": form, "shape": list(k.shape)})
                continue
            call_record("solver, %s input of %d points, depth %s" % (form, n, dkind), w, d, k)
            distinct.add(("call", n, form, dkind, rep))
            # asymptotes
            kd = k * d
            deep = kd >= 20
            shal = kd <= 0.05
            with np.errstate(all="ignore"):
                okd = np.abs(k * G / w ** 2 - 1.0) <= 2.5e-3
                oks = np.abs(k * np.sqrt(G * d) / w - 1.0) <= 2.5e-3
            if deep.any():
                tr.add({"kind": "flags", "name": "DeepWaterLimit", "what": "k -> w^2/g for kd >= 20", "ok": okd[deep].astype(int).tolist()})
            if shal.any():
                tr.add({"kind": "flags", "name": "ShallowWaterLimit", "what": "k -> w/sqrt(gd) for kd <= 0.05", "ok": oks[shal].astype(int).tolist()})
            # group velocity at the returned wavenumbers, and at arbitrary wavenumbers
            for kk, dd, lab in ((k, d, "at solved k"), (np.array([math.exp(rng.uniform(math.log(1e-5), math.log(1e5))) for _ in range(n)]) / np.where(np.isinf(d), 1.0, d), d, "at arbitrary k")):
                cg = np.asarray(ld.intrinsic_group_velocity(kk, dd), dtype="float64")
                cp = np.asarray(ld.phase_velocity(kk, dd), dtype="float64")
                ratio = cg / cp
                ref = dwdk(kk, dd)
                evals += n
                with np.errstate(all="ignore"):
                    tr.add({"kind": "flags", "name": "GroupVelocity", "what": "cg = dw/dk (2e-3) %s" % lab,
                            "ok": (np.abs(cg - ref) <= 2e-3 * ref).astype(int).tolist()})
                    tr.add({"kind": "flags", "name": "RatioRange", "what": "0.5 <= cg/c <= 1 %s" % lab,
                            "ok": ((ratio >= 0.5 - 1e-12) & (ratio <= 1.0 + 1e-12)).astype(int).tolist()})
        # ---- (4b) group velocity on calls that stay inside ONE regime (a shortcut taken when every element of a call looks deep, or
        # shallow, must still be right): the regime classes of Dispersion.tla's level mixes, one class per call, scalars included
        bands = [(1e-5, 0.05), (0.05, 0.5), (0.5, math.pi), (math.pi, 5.0), (5.0, 20.0), (20.0, 1e5)]
        for rep in range(12 if quick else 3000):
            lo_, hi_ = bands[rep % len(bands)]
            n = rng.choice([1, 1, 3, 50])
            dd = np.array([rnd_d(0.0) for _ in range(n)])
            kd = np.exp(np.array([rng.uniform(math.log(lo_), math.log(hi_)) for _ in range(n)]))
            kk = kd / dd
            if n == 1 and rng.random() < 0.5:
                cg = np.atleast_1d(np.asarray(ld.intrinsic_group_velocity(float(kk[0]), float(dd[0])), dtype="float64"))
            else:
                cg = np.asarray(ld.intrinsic_group_velocity(kk, dd), dtype="float64")
            ref = dwdk(kk, dd)
            evals += n
            with np.errstate(all="ignore"):
                tr.add({"kind": "flags", "name": "GroupVelocity", "what": "cg = dw/dk (2e-3), every element with kd in [%g, %g]" % (lo_, hi_),
                        "ok": (np.abs(cg - ref) <= 2e-3 * ref).astype(int).tolist()})
            distinct.add(("cg-regime", rep % len(bands), n))
        # ---- (5) order: increasing in w, non-increasing in d -------------------------------------------------------------------
        for rep in range(20 if quick else 2000):
            d = rnd_d(0.15)
            n = rng.choice([5, 60, 400])
            w = 3e-3 * (50.0 / 3e-3) ** (np.arange(n) / (n - 1.0))       # ratio >= 1.025: true k differs by >= 1.2 %
            w = w * (1.0 + 0.002 * np.array([rng.random() for _ in range(n)]))
            w = np.clip(w, 3e-3, 50.0)
            k = solve(w, np.full(n, d))
            evals += n
            tr.add({"kind": "mono", "dir": 1, "what": "k increasing in w at depth %s" % (("%.4g" % d) if math.isfinite(d) else "inf"),
                    "sg": np.sign(np.diff(k)).astype(int).tolist()})
            w0 = rnd_w()
            m = rng.choice([5, 40])
            ds = np.array(sorted(rnd_d(0.0) for _ in range(m)) + [np.inf])
            kk = solve(np.full(m + 1, w0), ds)
            evals += m + 1
            # slack: two results whose true values differ by less than the solver tolerance may come out in either order
            dk = np.diff(kk)
            sg = np.where(dk > 2.1e-3 * kk[:-1], 1, np.where(dk < 0, -1, 0))
            tr.add({"kind": "mono", "dir": -1, "what": "k non-increasing in d at w=%.4g" % w0, "sg": sg.astype(int).tolist()})
            distinct.add(("mono", rep))
        # ---- (5b) dense ladders in ONE call (20001 points over the whole range): neighbouring samples are closer than the solver tolerance,
        # so the order can only survive if every element of the call is iterated alike (Dispersion.tla: SameCount)
        for rep in range(4 if quick else 40):
            n = 20001
            d = math.inf if rep % 4 == 3 else rnd_d(0.0)
            w = np.exp(np.linspace(math.log(3e-3), math.log(50.0), n))
            k = solve(w, np.full(n, d))
            w0 = rnd_w()
            ds = np.exp(np.linspace(math.log(1e-2), math.log(1e4), n))
            kk = solve(np.full(n, w0), ds)
            evals += 2 * n
            with np.errstate(all="ignore"):
                okw = bool(np.all(np.diff(k) > 0))
                okd = bool(np.all(np.diff(kk) <= 1e-13 * kk[:-1]))
            tr.add({"kind": "flags", "name": "IncreasingInFrequency", "what": "dense frequency ladder (20001 points in one call) at depth %s" % (("%.4g" % d) if math.isfinite(d) else "inf"), "ok": [1 if okw else 0]})
            tr.add({"kind": "flags", "name": "NonIncreasingInDepth", "what": "dense depth ladder (20001 points in one call) at w=%.4g" % w0, "ok": [1 if okd else 0]})
            distinct.add(("dense", rep))
        # ---- (6) the spectrum accessors: depth x frequency index map, missing depth = deep --------------------------------------
        classes = ["d1", "d2", "inf"]
        for rep in range(6 if quick else 400):
            dval = {"d1": rng.uniform(0.5, 3.0), "d2": rng.uniform(15.0, 60.0), "inf": np.inf, "nan": np.nan}
            nf = rng.choice([8, 20])
            if rep % 2:
                f = np.sort(np.array([rng.uniform(0.02, 0.6) for _ in range(nf)]))
                f[0] = rng.uniform(0.02, 0.03)
            else:
                # the whole frequency range of the property: w = 2 pi f from 3e-3 to 50 rad/s
                f = np.sort(np.exp(np.array([rng.uniform(math.log(3e-3 / (2 * math.pi)), math.log(50.0 / (2 * math.pi))) for _ in range(nf)])))
                f[0], f[-1] = 3.0e-3 / (2 * math.pi) * 1.001, 50.0 / (2 * math.pi) * 0.999
            layout = ["scalar", "time", "time_lat", "flat"][rep % 4]
            kind = "2d" if rep % 3 == 2 else "1d"
            B = 1 if layout == "scalar" else rng.choice([2, 5])
            lead = () if layout == "scalar" else (B,) if layout == "time" else (B, 2)
            npts = int(np.prod(lead)) if lead else 1
            dcls = [rng.choice(["d1", "d2", "inf", "nan"]) for _ in range(npts)]
            if npts >= 4:
                dcls[:4] = rng.sample(["d1", "d2", "inf", "nan"], 4)
            dep = np.array([dval[c] for c in dcls]).reshape(lead) if lead else float(dval[dcls[0]])
            E = np.array([[rng.uniform(0.1, 1.0) for _ in range(nf)] for _ in range(npts)]).reshape(lead + (nf,))
            tvals = np.arange(B) * 3600
            if layout == "scalar":
                time, lat, lon, dims = tvals[0], 1.0, 2.0, ("frequency",)
            elif layout == "time":
                time, lat, lon, dims = tvals, np.arange(B) * 1.0, np.arange(B) * 2.0, ("time", "frequency")
            else:
                time, lat, lon, dims = tvals, np.array([10.0, 20.0]), np.arange(B * 2, dtype="float64").reshape(B, 2), ("time", "latitude", "frequency")
            try:
                if kind == "1d":
                    z = np.zeros(E.shape)
                    s = create_1d_spectrum(f, E, time, lat, lon, a1=z, b1=z, a2=z, b2=z, depth=dep, dims=dims)
                else:
                    dirs = np.array([0.0, 90.0, 180.0, 270.0])
                    s = create_2d_spectrum(f, dirs, np.repeat(E[..., None], 4, axis=-1) / 360.0, time, lat, lon, dims=dims + ("direction",), depth=dep)
                if layout == "flat":
                    s = s.flatten()
                acc = {"wavenumber": np.asarray(s.wavenumber.values), "wavelength": np.asarray(s.wavelength.values),
                       "wave_speed": np.asarray(s.wave_speed().values), "group_velocity": np.asarray(s.group_velocity.values)}
            except Exception as e:
                chk.violation("raise:accessor:%s:%s" % (layout, type(e).__name__), "spectrum wavenumber / group velocity accessor raised %s" % type(e).__name__,
                              {"layout": layout, "kind": kind, "depth_classes": dcls, "error": str(e)[:300]})
                continue
            w = 2 * np.pi * f
            tab = {}
            for c in classes:
                kc = solve(w, np.full(nf, dval[c]))
                tab[c] = {"wavenumber": kc, "wavelength": 2 * np.pi / kc, "wave_speed": w / kc,
                          "group_velocity": np.asarray(ld.intrinsic_group_velocity(kc, np.full(nf, dval[c])))}
            evals += npts * nf * 4
            for name, arr in acc.items():
                rows = arr.reshape(-1, nf) if arr.size == npts * nf else None
                if rows is None:
                    chk.violation("accessor-shape:%s:%s" % (name, layout), "%s does not have the shape leading dimensions x frequency" % name,
                                  {"layout": layout, "shape": list(arr.shape), "leading": list(lead), "nf": nf})
                    continue
                match = [[1 if np.allclose(rows[i], tab[c][name], rtol=3e-3, atol=0.0) else 0 for c in classes] for i in range(npts)]
                tr.add({"kind": "accessor", "what": "%s of a %s spectrum, layout %s" % (name, kind, layout), "dcls": dcls, "classes": classes,
                        "match": match, "depths": {k: (v if math.isfinite(v) else str(v)) for k, v in dval.items()}})
            distinct.add(("accessor", layout, kind, tuple(dcls)))
            # the depth is replaced on the same object (spectrum.dataset["depth"] = ...): the accessors describe the object as it is now
            if npts >= 2 and layout != "flat":
                dcls2 = dcls[1:] + dcls[:1]
                dep2 = np.array([dval[c] for c in dcls2]).reshape(lead)
                try:
                    s.dataset["depth"] = (s.dataset["depth"].dims, dep2)
                    acc2 = {"wavenumber": np.asarray(s.wavenumber.values), "wavelength": np.asarray(s.wavelength.values),
                            "wave_speed": np.asarray(s.wave_speed().values), "group_velocity": np.asarray(s.group_velocity.values)}
                except Exception as e:
                    chk.violation("raise:accessor-after-depth-change:%s" % type(e).__name__, "an accessor raised after the depth was replaced", {"layout": layout, "error": str(e)[:300]})
                    continue
                evals += npts * nf * 4
                for name, arr in acc2.items():
                    if arr.size != npts * nf:
                        chk.violation("accessor-shape-after-depth-change:%s" % name, "%s has the wrong shape after the depth was replaced" % name, {"layout": layout, "shape": list(arr.shape)})
                        continue
                    rows = arr.reshape(-1, nf)
                    match = [[1 if np.allclose(rows[i], tab[c][name], rtol=3e-3, atol=0.0) else 0 for c in classes] for i in range(npts)]
                    tr.add({"kind": "accessor", "what": "%s of a %s spectrum, layout %s, after the depth was replaced on the object" % (name, kind, layout), "dcls": dcls2,
                            "classes": classes, "match": match, "depths": {k: (v if math.isfinite(v) else str(v)) for k, v in dval.items()}})
        # ---- binding demonstration: corrupted records must be rejected -------------------------------------------------------------
        bt = Trace(os.path.join(work, "bind.ndjson"))
        bt.add({"kind": "call", "what": "corrupt", "pos": [1, 1], "res": [1, 0], "same": [1, 1]})
        bt.add({"kind": "mono", "what": "corrupt", "dir": -1, "sg": [-1, 0, 1]})
        bt.add({"kind": "accessor", "what": "corrupt", "dcls": ["nan"], "classes": classes, "match": [[0, 1, 0]]})
        bt.add({"kind": "accessor", "what": "fine", "dcls": ["nan"], "classes": classes, "match": [[0, 0, 1]]})
        rej = bt.validate(chk, binding=True)
        got = sorted(c for _r, cl in rej for c in cl)
        if got != ["IndexMap", "NonIncreasingInDepth", "Residual"]:
            chk.machinery("binding demonstration failed: corrupted records gave %s" % got)
        chk.set("binding_demo", "3 corrupted records rejected (Residual, NonIncreasingInDepth, IndexMap), 1 correct record accepted")
        tr.validate(chk)
        chk.set("evaluations", evals)
        chk.set("distinct_nontrivial", len(distinct))
        chk.assume("float comparisons (residual <= 1e-3 w, asymptotes 2.5e-3, group velocity 2e-3, accessor rows 3e-3) are reduced to flags by the driver; "
                   "Dispersion.tla / DispersionTrace.tla decide the clauses from the flags, the iteration-control model predicts the number of Newton steps "
                   "of a mixed array (difference = information, not an alarm)")
        return chk.finish(rule="w log-uniform in [3e-3, 50] rad/s x d log-uniform in [1e-2, 1e4] m and d = inf, plus points placed at kd ~ 1 and kd ~ 5 "
                               "(first-guess and derivative switches); scalars, arrays of 1..2000 points mixing regimes; every level mix emitted by the model; "
                               "1D / 2D spectra in 4 layouts with depth classes shallow / intermediate / inf / NaN; distinct = distinct configurations")
    finally:
        shutil.rmtree(work, ignore_errors=True)


def replay(path):
    from vlib import phys_common
    return phys_common.replay_record(path, "DispersionTrace", "DispersionTrace.cfg")
