"""C14 - Periodic coordinates and angular data interpolate across the wrap."""
import json
import math
import os
import random
import shutil

from vlib import common
from vlib import interp_common as ic
from vlib.drive_C13 import to_rational

PID = "C14"


def ang_close(got, q, tol):
    """got equals the rational q = [num, den] modulo 360 (within tol degrees)"""
    v = q[0] / q[1]
    d = (got - v + 180.0) % 360.0 - 180.0
    return abs(d) <= tol


def run(tier):
    quick = tier == "quick"
    chk = common.Check(PID, "model_checking", tier)
    rng = random.Random(chk.seed + 14)
    common.setup_numba_cache()
    import numpy as np
    import pandas as pd
    import xarray
    from datetime import datetime, timezone, timedelta
    from ocean_science_utilities.interpolate.dataset import interpolate_dataset_along_axis, interpolate_at_points
    from ocean_science_utilities.interpolate.general import interpolate_periodic
    from ocean_science_utilities.interpolate.dataframe import interpolate_dataframe_time
    from ocean_science_utilities.interpolate.geometry import Track, SpaceTimePoint
    work = common.scratch_dir("c14")
    evals, nontrivial = 0, 0
    try:
        # ---- A. periodic coordinate -------------------------------------------------------------------------
        cases = ic.tlc_cases(chk, "Interp_per_quick.cfg" if quick else "Interp_per_thorough.cfg",
                             "periodic axis (360): grids of 4(..5) nodes from a 45/30 degree lattice, any start (shifts 0, -170, 15), "
                             "ascending/descending, targets in [-1000,1000] incl. seams: 360-periodicity, node exactness, never missing")
        if not cases:
            chk.machinery("TLC emitted no periodic cases")
        chk.set("emitted_periodic_cases", len(cases))
        if cases:
            chk.sample({"periodic_case": {k: cases[len(cases) // 3][k] for k in ("xp", "nan", "mode", "x", "exp")}})
        for ci, c in enumerate(cases):
            rank = rng.choice([1, 2, 3])
            pos = rng.randrange(rank)
            name = rng.choice(["direction", "longitude"])
            ds, tx, fac, dims, pidx = ic.embed(c, rank, pos, "degrees", name, rng)
            ctx = {"case": {k: c[k] for k in ("xp", "nan", "mode", "f")}, "rank": rank, "axis": pos, "coordinate": name}
            try:
                out = interpolate_dataset_along_axis(tx, ds, coordinate_name=name, nearest_neighbour=(c["mode"] == "nearest"))["v"].values
            except Exception as e:
                chk.violation("raise:periodic-axis:%s" % type(e).__name__, "interpolation along a periodic coordinate raised",
                              dict(ctx, error=str(e)[:300]))
                continue
            evals += 1
            bad = None
            for o, (s, cc) in fac.items():
                for k in range(len(tx)):
                    ii = list(o)
                    ii.insert(pos, k)
                    got = float(out[tuple(ii)])
                    if not ic.accepts(c["exp"][k], got, s, cc):
                        bad = {"target": float(tx[k]), "got": got, "accepted": c["exp"][k], "factor": [s, cc]}
                        break
                if bad:
                    break
            if bad:
                chk.violation("periodic-axis:%s" % c["mode"], "value along a periodic coordinate differs from the cyclic reference", dict(ctx, **bad))
            if any(abs(x) > 360 for x in c["x"]):
                nontrivial += 1
            # the same case through interpolate_periodic with a periodic abscissa (the data-frame / track layer); no missing nodes there
            if c["mode"] == "linear" and not any(c["nan"]):
                try:
                    gp = interpolate_periodic(np.array(c["xp"], dtype="float64"), np.array([float(v) for v in c["f"]]), np.array(c["x"], dtype="float64"), x_period=360)
                except Exception as e:
                    chk.violation("raise:interpolate_periodic:x_period:%s" % type(e).__name__, "interpolate_periodic(x_period=360) raised", dict(ctx, error=str(e)[:300]))
                    continue
                evals += 1
                for k in range(len(c["x"])):
                    if not ic.accepts(c["exp"][k], float(gp[k])):
                        chk.violation("interpolate_periodic:x_period", "interpolate_periodic on a periodic abscissa differs from the cyclic reference",
                                      dict(ctx, target=float(c["x"][k]), got=float(gp[k]), accepted=c["exp"][k]))
                        break

        # gridded data at track points across the antimeridian (all coordinates interpolated) -------------------------
        sub = [c for c in cases if c["mode"] == "linear" and c["xp"][0] < c["xp"][-1]]
        for c in rng.sample(sub, min(len(sub), 60 if quick else 600)):
            lon = np.array(c["xp"], dtype="float64")
            lat = np.array([-10.0, 0.0, 10.0, 20.0])
            base = np.datetime64("2022-05-01T00:00:00", "s")
            tim = np.array([base + np.timedelta64(3600 * i, "s") for i in range(3)]).astype("datetime64[ns]")
            F = np.array([np.nan if c["nan"][j] else float(c["f"][j]) for j in range(len(lon))])
            data = F[None, None, :] + 10.0 * lat[None, :, None] + 100.0 * np.arange(3)[:, None, None]
            ds = xarray.Dataset()
            ds["u"] = xarray.DataArray(data, dims=["time", "latitude", "longitude"],
                                       coords={"time": tim, "latitude": lat, "longitude": lon})
            npts = len(c["x"])
            plat = np.array([rng.choice([-10.0, -2.5, 5.0, 12.5, 20.0]) for _ in range(npts)])
            pt = np.array([rng.choice([0.0, 0.25, 1.5, 2.0]) for _ in range(npts)])
            ptime = np.array([base + np.timedelta64(int(3600 * v), "s") for v in pt]).astype("datetime64[ns]")
            vals_ = {"time": ptime, "latitude": plat, "longitude": np.array(c["x"], dtype="float64")}
            korder = ["time", "latitude", "longitude"]
            rng.shuffle(korder)                       # the order of the keys of the points mapping carries no meaning
            points = {k_: vals_[k_] for k_ in korder}
            ctx = {"lon_grid": c["xp"], "nan": c["nan"], "key_order": korder}
            try:
                out = interpolate_at_points(ds, points, independent_variable="time", periodic_coordinates={"longitude": 360})["u"].values
            except Exception as e:
                chk.violation("raise:at_points:%s" % type(e).__name__, "interpolate_at_points raised %s" % type(e).__name__,
                              dict(ctx, error=str(e)[:300]))
                continue
            evals += 1
            for k in range(npts):
                if not ic.accepts(c["exp"][k], float(out[k]), 1.0, 10.0 * plat[k] + 100.0 * pt[k]):
                    chk.violation("at_points", "gridded data interpolated at a track point (periodic longitude) differs from the reference",
                                  dict(ctx, lon=float(c["x"][k]), lat=float(plat[k]), t=float(pt[k]), got=float(out[k]), accepted=c["exp"][k]))
                    break

        # random periodic grids of 4..72 nodes, validated by TLC -----------------------------------------------
        path = os.path.join(work, "c14.ndjson")
        recs = {}
        with open(path, "w") as fp:
            for j in range(200 if quick else 4000):
                n = rng.randint(4, 72)
                steps = [st for st in range(1, 120) if 180 < (n - 1) * st < 360]
                if j % 4 == 3 and steps:
                    # equidistant nodes that do not (necessarily) close the circle: the wrap bin is wider than the step
                    st = rng.choice(steps)
                    cuts = [i * st for i in range(n)]
                else:
                    while True:
                        cuts = sorted(rng.sample(range(0, 360), n))
                        gaps = [cuts[i + 1] - cuts[i] for i in range(n - 1)] + [360 - (cuts[-1] - cuts[0])]
                        if max(gaps) < 180:
                            break
                start = rng.randint(-400, 400)
                pts = [v + start for v in cuts]
                if rng.random() < 0.3:
                    pts = pts[::-1]
                nan = [1 if rng.random() < 0.08 else 0 for _ in pts]
                fv = [rng.randint(-20, 20) for _ in pts]
                mode = rng.choice(["linear", "linear", "nearest"])
                hi_, lo_ = max(pts), min(pts)
                wrapbin = [hi_ + rng.randint(0, 360 - (hi_ - lo_)) + 360 * rng.randint(-2, 2) for _ in range(4)]
                xs = [rng.randint(-1000, 1000) for _ in range(12)] + wrapbin + rng.sample(pts, 3) + [pts[0] + 360, pts[-1] - 360]
                name = rng.choice(["direction", "longitude"])
                ds = xarray.Dataset()
                ds["v"] = xarray.DataArray(np.array([np.nan if m else float(v) for v, m in zip(fv, nan)]), dims=[name],
                                           coords={name: np.array(pts, dtype="float64")})
                out = interpolate_dataset_along_axis(np.array(xs, dtype="float64"), ds, coordinate_name=name,
                                                     nearest_neighbour=(mode == "nearest"))["v"].values
                evals += 1
                rec = {"id": j, "xp": pts, "nan": nan, "f": fv, "mode": mode, "x": xs, "got": [to_rational(float(v), 360) for v in out]}
                recs[j] = rec
                fp.write(json.dumps(rec) + "\n")
                nontrivial += 1
        rt = common.run_tlc("InterpTrace", "InterpTrace_P360.cfg", workers=1, timeout=3600, env={"TRACE_FILE": path})
        done = None
        for p in rt.prints:
            d = json.loads(p)
            if d.get("done"):
                done = d
                continue
            rec = recs[d["id"]]
            k = d["bad"][0]
            chk.violation("trace-periodic:%s" % rec["mode"], "recorded interpolation along a periodic coordinate rejected at target %s" % rec["x"][k - 1],
                          {"record": rec, "bad_targets": d["bad"], "expected": d["expect"][k - 1]})
        if done is None or done["consumed"] != len(recs):
            chk.machinery("InterpTrace (periodic) did not consume the trace: %s" % (rt.error or rt.out[-600:]))
        chk.set("traces_validated_against_impl", len(recs))
        demo = os.path.join(work, "demo.ndjson")
        with open(demo, "w") as fp:   # binding demonstration: the long way across the wrap bin must be rejected
            fp.write(json.dumps({"id": 0, "xp": [0, 90, 180, 270], "nan": [0, 0, 0, 0], "f": [0, 10, 20, 30], "mode": "linear",
                                 "x": [315], "got": [["val", 25, 1]]}) + "\n")
        rd = common.run_tlc("InterpTrace", "InterpTrace_P360.cfg", workers=1, timeout=300, env={"TRACE_FILE": demo})
        okdemo = any('"bad"' in p for p in rd.prints)
        chk.set("binding_demo", {"corrupted_rejected": okdemo})
        if not okdemo:
            chk.machinery("binding demonstration failed")

        # ---- B. angular data ----------------------------------------------------------------------------------------
        r = common.run_tlc("MCAngular", "Angular.cfg", workers=16, timeout=1200)
        chk.tlc(r, "angle pairs around the 0/360 and +-180 seams x 7 weights: end points, range, symmetry, rotation, whole periods, never the long way")
        if r.violated:
            chk.violation("model:angular:%s" % r.violated, "Angular reference violates its own laws", {"tlc": r.out[-1500:]})
        elif not r.ok:
            chk.machinery("TLC failed on Angular: %s" % r.error)
        acases = [json.loads(p) for p in r.prints]
        chk.set("emitted_angular_cases", len(acases))
        if acases:
            chk.sample({"angular_case": acases[len(acases) // 2]})
        t0 = datetime(2023, 1, 1, tzinfo=timezone.utc)
        for c in acases:
            a, b, wn, wd = float(c["a"]), float(c["b"]), c["wn"], c["wd"]
            xp, x = np.array([0.0, float(wd)]), np.array([float(wn)])
            ctx = {"a": c["a"], "b": c["b"], "w": "%d/%d" % (wn, wd)}
            for lo, key, disc in ((0, "dir", 360), (-180, "lon", None)):
                try:
                    got = float(interpolate_periodic(xp, np.array([a, b]), x, fp_period=360, fp_discont=disc)[0])
                except Exception as e:
                    chk.violation("raise:interpolate_periodic", "interpolate_periodic raised", dict(ctx, error=str(e)[:200]))
                    continue
                evals += 1
                if key == "dir":
                    # direction variables: in [0, 360)
                    okv = 0 <= got < 360 and any(abs(got - q[0] / q[1]) <= 1e-9 for q in c[key])
                else:
                    # longitudes: any equivalent angle modulo 360 (the property fixes no interval: -180 and +180 are both fine)
                    okv = math.isfinite(got) and any(min((got - q[0] / q[1]) % 360.0, (q[0] / q[1] - got) % 360.0) <= 1e-9 for q in c[key])
                if not okv:
                    chk.violation("angular-linear:%s" % key, "angular data not interpolated along the shorter arc / wrong range (%s)" % key,
                                  dict(ctx, got=got, accepted=c[key], range=[lo, lo + 360]))
            # data frame (directions in [0,360), longitude equivalent modulo 360) and track
            try:
                df = pd.DataFrame({"time": np.array([t0, t0 + timedelta(seconds=wd * 8)], dtype="datetime64[s]"),
                                   "meanDirection": [a, b], "longitude": [a, b], "latitude": [1.0, 2.0]})
                newt = np.array([t0 + timedelta(seconds=wn * 8)], dtype="datetime64[s]")
                o = interpolate_dataframe_time(df, newt)
                evals += 1
                gd, gl, gla = float(o["meanDirection"][0]), float(o["longitude"][0]), float(o["latitude"][0])
                if not (0 <= gd < 360 and any(abs(gd - q[0] / q[1]) <= 1e-9 for q in c["dir"])):
                    chk.violation("dataframe-direction", "data frame: direction column crosses the seam the long way / wrong range",
                                  dict(ctx, got=gd, accepted=c["dir"]))
                if not any(ang_close(gl, q, 1e-9) for q in c["lon"]):
                    chk.violation("dataframe-longitude", "data frame: longitude column interpolated the long way round",
                                  dict(ctx, got=gl, accepted_mod_360=c["lon"]))
                if abs(gla - (1.0 + wn / wd)) > 1e-9:
                    chk.violation("dataframe-plain", "data frame: plain column not linearly interpolated", dict(ctx, got=gla))
                pts = [SpaceTimePoint(latitude=1.0, longitude=a, id="x", time=t0),
                       SpaceTimePoint(latitude=2.0, longitude=b, id="x", time=t0 + timedelta(seconds=wd * 8))]
                tr = Track(pts, "x").interpolate([t0 + timedelta(seconds=wn * 8)])
                evals += 1
                gl = float(tr.longitude[0])
                if not any(ang_close(gl, q, 1e-9) for q in c["lon"]):
                    chk.violation("track-longitude", "track: longitude interpolated the long way round", dict(ctx, got=gl, accepted_mod_360=c["lon"]))
            except Exception as e:
                chk.violation("raise:dataframe-track:%s" % type(e).__name__, "data frame / track interpolation raised", dict(ctx, error=str(e)[:300]))
            # vector averaging of direction variables in datasets
            try:
                tim = np.array([np.datetime64("2023-01-01T00:00:00", "s"), np.datetime64("2023-01-01T00:00:00", "s") + np.timedelta64(wd * 8, "s")])
                ds = xarray.Dataset()
                ds["peak_direction"] = xarray.DataArray(np.array([a, b]), dims=["time"], coords={"time": tim.astype("datetime64[ns]")})
                ds["longitude"] = xarray.DataArray(np.array([a, b]), dims=["time"], coords={"time": tim.astype("datetime64[ns]")})
                tq = np.array([tim[0] + np.timedelta64(wn * 8, "s")]).astype("datetime64[ns]")
                o = interpolate_dataset_along_axis(tq, ds, coordinate_name="time")
                evals += 1
                for var, rng_lo in (("peak_direction", 0.0), ("longitude", None)):
                    got = float(o[var].values[0])
                    v = c["vec"]
                    ok = True
                    if v["kind"] == "exact":
                        ok = ang_close(got, v["val"], 2e-3)
                    elif v["kind"] == "arc":
                        off = (got - v["from"] + 180.0) % 360.0 - 180.0
                        lo_, hi_ = (0.0, float(v["len"])) if v["len"] >= 0 else (float(v["len"]), 0.0)
                        ok = lo_ - 2e-3 <= off <= hi_ + 2e-3
                        # N atom: direction of the weighted vector sum
                        ra, rb, ww = math.radians(a), math.radians(b), wn / wd
                        ref = math.degrees(math.atan2((1 - ww) * math.sin(ra) + ww * math.sin(rb), (1 - ww) * math.cos(ra) + ww * math.cos(rb)))
                        ok = ok and abs((got - ref + 180.0) % 360.0 - 180.0) <= 2e-3
                    if v["kind"] != "unspecified" and rng_lo is not None and not (0.0 <= got < 360.0):
                        ok = False
                    if not ok:
                        chk.violation("vector-average:%s" % var, "dataset: angular variable %s not averaged along the shorter arc / wrong range" % var,
                                      dict(ctx, got=got, rule=v))
            except Exception as e:
                chk.violation("raise:vector-average:%s" % type(e).__name__, "dataset interpolation of angular data raised", dict(ctx, error=str(e)[:300]))
            if abs(c["b"] - c["a"]) % 360 not in (0,) and c["wn"] not in (0, c["wd"]):
                nontrivial += 1

        chk.set("evaluations", evals)
        chk.set("distinct_nontrivial", nontrivial)
        chk.assume("integer degree grids with every gap < 180; vector averaging judged with 2e-3 degree tolerance (the code averages in complex64); "
                   "exactly opposite angles (arc of 180) accept both arcs / are unspecified for vector averaging")
        return chk.finish(rule="TLC enumerates periodic grids x masks x modes with targets up to +-1000 and angle pairs around both seams x "
                               "weights; each case replayed through dataset / data-frame / track / at-points interpolation; random periodic "
                               "grids of 4..72 nodes validated by InterpTrace; non-trivial = cases whose target is more than a period away "
                               "or whose angles differ with an interior weight")
    finally:
        shutil.rmtree(work, ignore_errors=True)


def replay(path):
    with open(path) as fp:
        print(fp.read()[:4000])
    return 0
