"""GRD - not one of the listed properties: conformance of tools/grid.py (enclosing_points_1d, the index search every
interpolation routine starts with, and midpoint_rule_step) with spec/Bracket.tla.  TLC checks the implementation-shaped
transcription against the property-level clauses (enclosure in the original frame for ascending and descending grids, the two
outside cases, periodic enclosure with the closing interval, the regular-grid fast path, independence of the periodic image,
midpoint-rule sum) for every small integer grid, rejects the design with insertion side = left (non-vacuity), and emits every case;
the cases are replayed on the real functions - one at a time, in batches, and as dyadic affine images (exact in floating point).
Run as ./check GRD ; a mismatch is a model conformance difference (exit 1), not a violation of a listed property."""
import json

import numpy as np

from vlib import common

PID = "GRD"


def run(tier):
    quick = tier == "quick"
    chk = common.Check(PID, "model_checking", tier)
    r = common.run_tlc("Bracket", "Bracket_mc.cfg" if quick else "Bracket_mc_thorough.cfg", workers=8, timeout=3000)
    chk.tlc(r, "index search and midpoint rule on every strictly monotone integer grid (both directions), every x in a window, every period: "
               "GeneralMeetsClauses, FastPathAgrees, ImageInvariant, MidpointSum")
    if r.violated:
        chk.violation("model:%s" % r.violated, "Bracket.tla violates %s" % r.violated, {"tlc": r.out[-1500:]})
    elif not r.ok:
        chk.machinery("TLC failed on Bracket_mc: %s" % r.error)
    rv = common.run_tlc("Bracket", "Bracket_left.cfg", workers=2, timeout=600)
    if rv.violated != "GeneralMeetsClauses":
        chk.machinery("non-vacuity: the design with insertion side = left was not rejected (%s)" % (rv.violated or rv.error))
    chk.set("non_vacuity", "Design=left rejected by GeneralMeetsClauses")
    rg = common.run_tlc("Bracket", "Bracket_emit.cfg" if quick else "Bracket_emit_thorough.cfg", workers=1, timeout=3000)
    if rg.violated or rg.error:
        chk.machinery("TLC failed on the emitting configuration: %s" % (rg.violated or rg.error))
    cases = [json.loads(p) for p in rg.prints]
    if not cases:
        chk.machinery("TLC emitted no cases")
    chk.set("cases_emitted", len(cases))

    from ocean_science_utilities.tools.grid import enclosing_points_1d, midpoint_rule_step

    groups = {}
    for c in cases:
        groups.setdefault((tuple(c["xp"]), c["P"]), []).append(c)
    images = [(1.0, 0.0), (0.25, 0.5), (4.0, -3.0), (0.5, 1024.0)]     # dyadic: every operation of the code stays exact
    compared = 0
    corrupted_rejected = 0
    for (xp, P), cs in sorted(groups.items()):
        want = np.array([c["r"] for c in cs], dtype=np.int64).T
        xs = np.array([c["x"] for c in cs], dtype=float)
        g = np.array(xp, dtype=float)
        for (a, b) in images:
            period = None if P == 0 else a * P
            try:
                got = enclosing_points_1d(a * g + b, a * xs + b, period=period)
                ok = got.shape == want.shape and np.array_equal(np.asarray(got, dtype=np.int64), want)
            except Exception as e:                                   # noqa: BLE001 - any exception is a difference
                got, ok = "raised %s: %s" % (type(e).__name__, e), False
            compared += len(cs)
            if not ok:
                chk.violation("grid:batch", "enclosing_points_1d differs from Bracket.tla (batch of points)",
                              {"xp": list(xp), "P": P, "x": xs.tolist(), "image": [a, b], "expected": want.tolist(), "observed": np.asarray(got).tolist() if not isinstance(got, str) else got})
                break
        # one point at a time, 0-d and 1-element input
        for c in cs[:: (1 if not quick else 3)]:
            for v in (float(c["x"]), np.array([c["x"]], dtype=float)):
                try:
                    got = enclosing_points_1d(g, v, period=None if P == 0 else float(P))
                    ok = [int(got[0, 0]), int(got[1, 0])] == c["r"] and got.shape == (2, 1)
                except Exception as e:                               # noqa: BLE001
                    got, ok = "raised %s: %s" % (type(e).__name__, e), False
                compared += 1
                if not ok:
                    chk.violation("grid:single", "enclosing_points_1d differs from Bracket.tla (single point)",
                                  {"xp": list(xp), "P": P, "x": c["x"], "expected": c["r"], "observed": str(got)})
        if cs[0]["reg"]:
            try:
                got = enclosing_points_1d(g, xs, regular_xp=True, period=None if P == 0 else float(P))
                ok = np.array_equal(np.asarray(got, dtype=np.int64), want)
            except Exception as e:                                   # noqa: BLE001
                got, ok = "raised %s: %s" % (type(e).__name__, e), False
            compared += len(cs)
            chk.add("fast_path_cases", len(cs))
            if not ok:
                chk.violation("grid:regular", "the regular-grid fast path of enclosing_points_1d differs from the general search on a regular grid",
                              {"xp": list(xp), "P": P, "x": xs.tolist(), "expected": want.tolist(), "observed": np.asarray(got).tolist() if not isinstance(got, str) else got})
        if P == 0:
            for (a, b) in images:
                step = midpoint_rule_step(a * g + b)
                compared += 1
                if not np.array_equal(2.0 * np.asarray(step), a * np.array(cs[0]["step2"], dtype=float)):
                    chk.violation("grid:midpoint", "midpoint_rule_step differs from Bracket.tla",
                                  {"xp": list(xp), "image": [a, b], "expected_twice_step": cs[0]["step2"], "observed": np.asarray(step).tolist()})
        # binding demonstration: a corrupted expectation must not be accepted
        bad = want.copy()
        bad[1, 0] = (bad[1, 0] + 1) % len(xp) if len(xp) > 2 else 1 - bad[1, 0]
        got = enclosing_points_1d(g, xs, period=None if P == 0 else float(P))
        if not np.array_equal(np.asarray(got, dtype=np.int64), bad):
            corrupted_rejected += 1
    chk.set("binding_demo", {"corrupted_expectations_rejected": corrupted_rejected, "of": len(groups)})
    if corrupted_rejected != len(groups):
        chk.machinery("binding demonstration failed: a corrupted expectation was accepted")
    chk.add("spec_traces_replayed", len(groups))
    chk.set("calls_compared", compared)
    chk.sample({"xp": cases[0]["xp"], "x": cases[0]["x"], "P": cases[0]["P"], "r": cases[0]["r"]})
    chk.assume("values are integers or dyadic affine images of integers, so that the flip, the modulo and the comparisons of the code are exact; "
               "periods are larger than the span of the grid")
    return chk.finish(rule="every case of Bracket.tla (grid, x, period) replayed on tools/grid.py: batch, single point, four dyadic affine images, "
                           "regular-grid fast path where the grid is regular, midpoint-rule steps")


def replay(path):
    with open(path) as fp:
        print(fp.read()[:4000])
    return 0
