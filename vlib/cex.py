"""Compact view of a TLC counterexample: action names + selected variables of the last state."""
import re, sys
def compact(out, keep=("viol", "sess", "files", "ev", "resp")):
    lines = out.splitlines()
    acts = [l for l in lines if l.startswith("State ") or l.startswith("Error:")]
    res = []
    for a in acts:
        m = re.match(r"State (\d+): <(\w+(?:\([^)]*\))?) line", a)
        res.append(("%s %s" % (m.group(1), m.group(2))) if m else a)
    return "\n".join(res)
if __name__ == "__main__":
    out = sys.stdin.read()
    print(compact(out))
    # last state
    idx = out.rfind("\nState ")
    print(out[idx:idx+3000])
