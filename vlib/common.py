"""Shared machinery: TLC runner, evidence writer, violation / known-finding reporting.

Everything here is stdlib only and runs under /venv/bin/python (the interpreter that has the
repository installed in editable mode, so the drivers always import /repo's working tree).
"""
import hashlib
import json
import os
import re
import shutil
import subprocess
import sys
import tempfile
import time

VERIF = os.path.dirname(os.path.dirname(os.path.abspath(__file__)))
SPEC = os.path.join(VERIF, "spec")
REPO = "/repo"
TLA_CP = "/opt/veriftools/tla/tla2tools.jar:/opt/veriftools/tla/CommunityModules-deps.jar"
GUARD = "OCEAN_SCIENCE_UTILITIES_VERIF"


def seed():
    try:
        return int(os.environ.get("VERIF_SEED", "20260928"))
    except ValueError:
        return 20260928


def scratch_dir(prefix="osu"):
    base = "/dev/shm" if os.path.isdir("/dev/shm") and os.access("/dev/shm", os.W_OK) else None
    return tempfile.mkdtemp(prefix=prefix + "-", dir=base)


def source_hash():
    """sha1 over every python source file of the library (used to key numba's on-disk cache)."""
    h = hashlib.sha1()
    root = os.path.join(REPO, "src")
    for d, _dirs, files in sorted(os.walk(root)):
        for f in sorted(files):
            if f.endswith(".py"):
                p = os.path.join(d, f)
                h.update(p.encode())
                with open(p, "rb") as fp:
                    h.update(fp.read())
    return h.hexdigest()[:16]


# numba invalidates a cached kernel only when the file that DEFINES it changes, not when a file it calls into changes: the cache
# directory is keyed by a hash of all sources, and a run during which the sources changed must not leave its kernels behind
_NUMBA_CACHE = {"hash": None, "dir": None}


def setup_numba_cache():
    """Point numba's on-disk cache to a directory keyed by the source hash so an edited source can
    never be served by a stale compiled function. Must be called before numba is imported."""
    h0 = source_hash()
    d = os.path.join(VERIF, ".cache", "numba", h0)
    os.makedirs(d, exist_ok=True)
    os.environ["NUMBA_CACHE_DIR"] = d
    _NUMBA_CACHE["hash"], _NUMBA_CACHE["dir"] = h0, d
    # remove caches of other source versions (disk is limited)
    parent = os.path.dirname(d)
    for other in os.listdir(parent):
        if other != os.path.basename(d):
            shutil.rmtree(os.path.join(parent, other), ignore_errors=True)
    return d


class TLCError(Exception):
    pass


class TLCResult:
    def __init__(self):
        self.out = ""
        self.generated = 0
        self.distinct = 0
        self.depth = 0
        self.prints = []  # values printed with PrintT, as raw strings
        self.violated = None  # name of violated invariant / property, if any
        self.error = None
        self.coverage = {}  # action name -> (distinct, total)
        self.wall = 0.0
        self.ok = False


_RE_STATES = re.compile(r"(\d+) states generated, (\d+) distinct states found")
_RE_DEPTH = re.compile(r"The depth of the complete state graph search is (\d+)")
_RE_INV = re.compile(r"Invariant (\S+) is violated")
_RE_PROP = re.compile(r"(?:Action property|Temporal properties|property) (\S+)? ?.*violated", re.I)
_RE_COV = re.compile(r"^<(\w+) line \d+, col \d+ to line \d+, col \d+ of module (\w+)>: (\d+):(\d+)")


def run_tlc(module, cfg, workers=1, env=None, timeout=1800, simulate=None, depth=None,
            coverage=False, extra=None, cwd=None, java_opts=None, dump=None):
    """Run TLC on spec/<module>.tla with spec/<cfg>; returns a TLCResult (never raises on a
    property violation: .violated is set instead). Raises TLCError on a machinery failure."""
    cwd = cwd or SPEC
    meta = scratch_dir("tlcmeta")
    cmd = ["java", "-XX:+UseParallelGC"]
    if java_opts:
        cmd += list(java_opts)
    cmd += ["-cp", TLA_CP, "tlc2.TLC", "-workers", str(workers), "-metadir", meta,
            "-noGenerateSpecTE", "-config", cfg]
    if simulate:
        cmd += ["-simulate", simulate]
    if depth:
        cmd += ["-depth", str(depth)]
    if coverage:
        cmd += ["-coverage", "1"]
    if dump:
        cmd += ["-dump", dump[0], dump[1]]
    if extra:
        cmd += list(extra)
    cmd.append(module if module.endswith(".tla") else module + ".tla")
    e = dict(os.environ)
    if env:
        e.update({k: str(v) for k, v in env.items()})
    t0 = time.time()
    try:
        p = subprocess.run(cmd, cwd=cwd, env=e, stdout=subprocess.PIPE, stderr=subprocess.STDOUT,
                           timeout=timeout, text=True, errors="replace")
    except subprocess.TimeoutExpired as ex:
        shutil.rmtree(meta, ignore_errors=True)
        raise TLCError("TLC timed out after %ss: %s" % (timeout, " ".join(cmd))) from ex
    finally:
        shutil.rmtree(meta, ignore_errors=True)
    r = TLCResult()
    r.wall = time.time() - t0
    r.out = p.stdout
    for m in _RE_STATES.finditer(p.stdout):
        r.generated, r.distinct = int(m.group(1)), int(m.group(2))
    m = _RE_DEPTH.search(p.stdout)
    if m:
        r.depth = int(m.group(1))
    m = _RE_INV.search(p.stdout)
    if m:
        r.violated = m.group(1)
    elif "is violated" in p.stdout or "was violated" in p.stdout:
        mm = re.search(r"(?:Action property|Temporal properties?|property)\s+(\w+)?", p.stdout)
        r.violated = (mm.group(1) if mm and mm.group(1) else "property")
    if coverage:
        for line in p.stdout.splitlines():
            mm = _RE_COV.match(line.strip())
            if mm:
                r.coverage[mm.group(1)] = (int(mm.group(3)), int(mm.group(4)))
    r.prints = extract_prints(p.stdout)
    finished = "Model checking completed" in p.stdout or "Finished in" in p.stdout or \
        "Progress:" in p.stdout or "The number of states generated" in p.stdout
    if r.violated is None and (p.returncode != 0 or "Error:" in p.stdout):
        # deadlock, evaluation error, parse error ... : machinery failure or a genuine finding
        r.error = first_error(p.stdout) or ("TLC exit code %d" % p.returncode)
    r.ok = r.violated is None and r.error is None and finished
    return r


def first_error(out):
    lines = out.splitlines()
    for i, l in enumerate(lines):
        if l.startswith("Error:") or "*** Errors" in l or "Parsing or semantic analysis failed" in l:
            return "\n".join(lines[i:i + 12])
    return None


def extract_prints(out):
    """PrintT(<value>) lines: we only ever print strings starting with '@@' followed by JSON
    (ToJson output), one per line, so parsing is line based and robust to worker interleaving as
    long as -workers 1 is used for emitters."""
    res = []
    for line in out.splitlines():
        s = line.strip()
        if s.startswith('"@@') and s.endswith('"'):
            body = s[3:-1]
            # TLC prints strings with escaped quotes
            body = body.replace('\\"', '"').replace("\\\\", "\\")
            res.append(body)
        elif s.startswith("@@"):
            res.append(s[2:])
    return res


def tla_value(v):
    """Render a python value as a TLA+ expression (ints, bools, strings, lists -> sequences,
    dicts -> records, sets/frozensets -> sets)."""
    if isinstance(v, bool):
        return "TRUE" if v else "FALSE"
    if isinstance(v, int):
        return str(v)
    if isinstance(v, str):
        return '"' + v.replace("\\", "\\\\").replace('"', '\\"') + '"'
    if isinstance(v, (list, tuple)):
        return "<<" + ", ".join(tla_value(x) for x in v) + ">>"
    if isinstance(v, (set, frozenset)):
        return "{" + ", ".join(tla_value(x) for x in sorted(v, key=repr)) + "}"
    if isinstance(v, dict):
        if not v:
            return "<<>>"
        return "[" + ", ".join("%s |-> %s" % (k, tla_value(x)) for k, x in v.items()) + "]"
    raise TypeError("cannot render %r as TLA+" % (v,))


# --------------------------------------------------------------------------------------------
# evidence, violations, known findings
# --------------------------------------------------------------------------------------------

def load_known():
    p = os.path.join(VERIF, "known_findings.json")
    if not os.path.exists(p):
        return {"known": [], "fixed": []}
    with open(p) as fp:
        return json.load(fp)


# replay paths of the VIOLATION lines printed by this process (the dispatcher needs them if a driver crashes afterwards)
PRINTED_VIOLATIONS = []


class Check:
    """One run of one property's check. Collects coverage, violations, writes evidence."""

    def __init__(self, pid, level, tier):
        self.pid = pid
        self.level = level
        self.tier = tier
        self.seed = seed()
        self.t0 = time.time()
        self.cov = {}
        self.samples = []
        self.assumptions = []
        self.violations = []  # (key, what, replay path)
        self.known_hits = []
        self.machinery_errors = []
        self.notes = []
        self._known = [k for k in load_known().get("known", []) if k.get("property") == pid]
        self._seen_keys = set()
        os.makedirs(os.path.join(VERIF, "evidence"), exist_ok=True)

    # coverage helpers ------------------------------------------------------------------
    def add(self, key, n=1):
        self.cov[key] = self.cov.get(key, 0) + n

    def set(self, key, v):
        self.cov[key] = v

    def sample(self, s, cap=6):
        if len(self.samples) < cap:
            self.samples.append(s)

    def assume(self, text):
        if text not in self.assumptions:
            self.assumptions.append(text)

    def tlc(self, r, what):
        """account a TLC model-checking run"""
        self.add("states", r.distinct)
        self.add("transitions", r.generated)
        self.cov.setdefault("tlc_runs", []).append(
            {"what": what, "distinct": r.distinct, "generated": r.generated, "depth": r.depth,
             "wall_s": round(r.wall, 2)})

    # verdicts ---------------------------------------------------------------------------
    def violation(self, key, what, replay):
        """key: stable identifier of the specific failing input / call site / history.
        replay: JSON-serialisable description sufficient to re-run the failing case."""
        if key in self._seen_keys:
            return
        self._seen_keys.add(key)
        for k in self._known:
            pat = k.get("match", "")
            if (k.get("regex") and re.search(pat, key)) or key == pat or \
                    (pat.endswith("*") and key.startswith(pat[:-1])):
                first = not any(w == k.get("what", what) for _k, w in self.known_hits)
                self.known_hits.append((key, k.get("what", what)))
                if first:   # one line per listed finding
                    print("KNOWN-FINDING: property=%s %s [first match: %s]" % (self.pid, k.get("what", what), key))
                return
        d = os.path.join(VERIF, "replays", self.pid)
        os.makedirs(d, exist_ok=True)
        name = re.sub(r"[^A-Za-z0-9_.-]+", "_", key)[:80] + "-" + \
            hashlib.sha1(key.encode()).hexdigest()[:8] + ".json"
        path = os.path.join(d, name)
        with open(path, "w") as fp:
            json.dump({"property": self.pid, "key": key, "what": what, "replay": replay,
                       "seed": self.seed, "tier": self.tier}, fp, indent=1, default=str)
        self.violations.append((key, what, path))
        PRINTED_VIOLATIONS.append(path)
        print("VIOLATION property=%s replay=%s" % (self.pid, path))
        print("  what: %s" % what)
        sys.stdout.flush()

    def machinery(self, what):
        self.machinery_errors.append(what)
        print("MACHINERY-FAILURE property=%s %s" % (self.pid, what))
        sys.stdout.flush()

    def finish(self, rule=None, exhaustive=None):
        cov = dict(self.cov)
        cov["samples"] = self.samples if self.samples else ["(no sample recorded)"]
        if rule:
            cov["rule"] = rule
        if exhaustive is not None:
            cov["exhaustive"] = bool(exhaustive)
        cov.setdefault("evaluations", 0)
        cov.setdefault("distinct_nontrivial", 0)
        cov.setdefault("rule", rule or "")
        if self.level == "model_checking":
            cov.setdefault("states", 0)
            cov.setdefault("transitions", 0)
            cov.setdefault("traces_validated_against_impl", 0)
        if self.notes:
            cov["notes"] = self.notes
        if self.known_hits:
            cov["known_findings_hit"] = [k for k, _ in self.known_hits]
        ev = {
            "property_id": self.pid,
            "tier": self.tier,
            "seed": self.seed,
            "level": self.level,
            "coverage": cov,
            "assumptions": self.assumptions,
            "wall_s": round(time.time() - self.t0, 2),
            "violations": len(self.violations),
        }
        if _NUMBA_CACHE["hash"] is not None and source_hash() != _NUMBA_CACHE["hash"]:
            shutil.rmtree(_NUMBA_CACHE["dir"], ignore_errors=True)
            self.machinery("the sources of /repo changed while the check was running: the verdict is void and the compiled kernels of this run were discarded")
        if self.machinery_errors:
            ev["coverage"]["machinery_errors"] = self.machinery_errors
        # checks that are not about a listed property (growth of the specification) keep their evidence apart
        sub = "evidence" if (self.pid[:1] == "C" and self.pid[1:].isdigit()) else "evidence_extra"
        os.makedirs(os.path.join(VERIF, sub), exist_ok=True)
        path = os.path.join(VERIF, sub, self.pid + ".json")
        with open(path, "w") as fp:
            json.dump(ev, fp, indent=1, default=str)
        print("%s tier=%s level=%s violations=%d known=%d wall=%.1fs evidence=%s" % (
            self.pid, self.tier, self.level, len(self.violations), len(self.known_hits),
            ev["wall_s"], path))
        if self.violations:
            return 1
        if self.machinery_errors:
            return 2
        return 0


_SYM_CACHE = {}


def symmetry_elements(chk, N, C):
    """All elements of the dihedral group on a uniform N-bin direction grid (Symmetry.tla), each with
    its bin permutation; TLC checks bijectivity, the homomorphism law and agreement with the angle
    map on every element."""
    if (N, C) in _SYM_CACHE:
        return _SYM_CACHE[(N, C)]
    d = scratch_dir("symcfg")
    cfg = os.path.join(d, "Symmetry_%d_%d.cfg" % (N, C))
    with open(cfg, "w") as fp:
        fp.write("SPECIFICATION Spec\nCONSTANTS\n  N = %d\n  C = %d\nINVARIANT Bijective\nINVARIANT Homomorphism\n"
                 "INVARIANT AngleMapAgrees\nINVARIANT GroupLaws\nINVARIANT Emit\nCHECK_DEADLOCK FALSE\n" % (N, C))
    r = run_tlc("Symmetry", cfg, workers=1, timeout=900)
    shutil.rmtree(d, ignore_errors=True)
    chk.tlc(r, "dihedral group on a uniform grid of %d bins (C=%d): bijective, homomorphism, agrees with the angle map" % (N, C))
    if r.violated:
        chk.violation("model:symmetry:%s" % r.violated, "Symmetry.tla violates %s for N=%d" % (r.violated, N), {"tlc": r.out[-1500:]})
    elif not r.ok:
        chk.machinery("TLC failed on Symmetry N=%d: %s" % (N, r.error))
    els, seen = [], set()
    for p in r.prints:
        e = json.loads(p)
        if (e["k"], e["s"]) not in seen:
            seen.add((e["k"], e["s"]))
            els.append(e)
    if len(els) != 2 * N:
        chk.machinery("Symmetry.tla generated %d elements for N=%d, expected %d" % (len(els), N, 2 * N))
    _SYM_CACHE[(N, C)] = els
    return els
