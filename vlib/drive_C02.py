"""C02 - Directional integration of a 2D spectrum conserves energy and bounds the moments."""
import json
import math
import os
import random
import shutil

from vlib import common
from vlib import session_common as ssn
from vlib import spec1d_common as sc1

PID = "C02"
R = math.sqrt(2.0) / 2.0


def close(a, b, tol=1e-11):
    if math.isnan(a) or math.isnan(b):
        return math.isnan(a) and math.isnan(b)
    return abs(a - b) <= tol * max(1.0, abs(a), abs(b))


def run(tier):
    quick = tier == "quick"
    chk = common.Check(PID, "model_checking", tier)
    rng = random.Random(chk.seed + 2)
    common.setup_numba_cache()
    import numpy as np
    from ocean_science_utilities.wavespectra.spectrum import create_2d_spectrum
    from ocean_science_utilities.wavespectra.operations import integrate_spectral_data
    work = common.scratch_dir("c02")
    evals, nontrivial = 0, 0
    try:
        r = common.run_tlc("MCDirectional", "Directional_quick.cfg" if quick else "Directional_thorough.cfg", workers=16, timeout=7200)
        chk.tlc(r, "octant grids with filler bins, every start index and window, densities and missing fillers: widths sum to 360, "
                   "|moments| <= 1, a1^2+b1^2 <= 1 (exact in Z[sqrt2/2])")
        if r.violated:
            chk.violation("model:%s" % r.violated, "Directional reference violates its own laws", {"tlc": r.out[-1500:]})
        elif not r.ok:
            chk.machinery("TLC failed on Directional: %s" % r.error)
        cases = [json.loads(p) for p in r.prints]
        chk.set("emitted_cases", len(cases))
        if cases:
            chk.sample({"emitted_case": cases[len(cases) // 2]})
        by = {}
        for c in cases:
            by.setdefault(tuple(c["dir"]), []).append(c)
        keys = list(by)
        if quick:
            keys = rng.sample(keys, min(len(keys), 150))
        for dk in keys:
            grp = by[dk]
            if quick and len(grp) > 40:
                grp = rng.sample(grp, 40)
            nd, B = len(dk), len(grp)
            D = np.array([[np.nan if c["nan"][j] else float(c["D"][j]) for j in range(nd)] for c in grp])
            vd = np.stack([D, 2.0 * D], axis=1)          # two frequencies: the second carries twice the energy
            ctx = {"dir": list(dk)}
            try:
                s = create_2d_spectrum(np.array([0.1, 0.2]), np.array(dk, dtype="float64"), vd, np.arange(B) * 3600,
                                       np.zeros(B), np.zeros(B), depth=np.full(B, np.inf))
                step = s.direction_step.values
                with np.errstate(all="ignore"):
                    e, a1, b1, a2, b2 = s.e.values, s.a1.values, s.b1.values, s.a2.values, s.b2.values
                ei = integrate_spectral_data(s.variance_density, "direction").values
            except Exception as ex:
                chk.violation("raise:%s" % type(ex).__name__, "directional integration raised %s" % type(ex).__name__, dict(ctx, error=str(ex)[:300]))
                continue
            evals += B
            if list(map(float, step)) != [float(x) for x in grp[0]["step"]]:
                chk.violation("direction-step", "direction bin widths are not the wrapped forward differences", dict(ctx, got=list(map(float, step)), expected=grp[0]["step"]))
                continue
            for i, c in enumerate(grp):
                E = float(c["E"])
                cc = dict(ctx, D=c["D"], nan=c["nan"])
                for row, fac in ((0, 1.0), (1, 2.0)):
                    if not close(float(e[i, row]), fac * E) or not close(float(np.nan_to_num(ei[i, row])), fac * E):
                        chk.violation("e(f)", "e(f) is not the sum of density times bin width", dict(cc, got=float(e[i, row]), integrate_spectral_data=float(ei[i, row]), expected=fac * E))
                        break
                    if E > 0:
                        exp = [(c["a1"][0] + c["a1"][1] * R) / E, (c["b1"][0] + c["b1"][1] * R) / E, c["a2"] / E, c["b2"] / E]
                        got = [float(a1[i, row]), float(b1[i, row]), float(a2[i, row]), float(b2[i, row])]
                        if not all(close(g, x) for g, x in zip(got, exp)):
                            chk.violation("moments", "a1,b1,a2,b2 are not the cos/sin weighted sums divided by e(f)", dict(cc, got=got, expected=exp))
                            break
                        if max(abs(g) for g in got) > 1 + 1e-12 or got[0] ** 2 + got[1] ** 2 > 1 + 1e-12:
                            chk.violation("moment-bounds", "a directional moment exceeds its bound", dict(cc, got=got))
                            break
                        nontrivial += 1
                else:
                    continue
                break

        # relational: 2D -> 1D preserves total variance, bulk parameters, time / position / depth -------------------
        for j in range(40 if quick else 600):
            nd = rng.choice([8, 9, 16, 24, 36, 37, 72, 144])
            nf = rng.randint(4, 12)
            if rng.random() < 0.5:
                dirs = (np.arange(nd) * 360.0 / nd + rng.uniform(-360, 360))
            else:
                cuts = np.sort(np.array(rng.sample(range(0, 3600), nd))) / 10.0
                while np.max(np.diff(np.append(cuts, cuts[0] + 360))) >= 180:
                    cuts = np.sort(np.array(rng.sample(range(0, 3600), nd))) / 10.0
                k = rng.randrange(nd)
                dirs = np.roll(cuts, -k) + rng.choice([0.0, 0.0, -360.0, 360.0])     # (the rolled array wraps inside)
            f = np.cumsum(np.array([rng.uniform(0.02, 0.08) for _ in range(nf)]))
            B = rng.choice([1, 3])
            vd = np.array([[[rng.uniform(0, 1) * math.exp(-((((d - 100 * (b + 1) - 30 * i) + 180) % 360 - 180) / 40.0) ** 2) for d in dirs]
                            for i in range(nf)] for b in range(B)])
            mask = np.array([[[rng.random() < 0.1 for _ in dirs] for _ in range(nf)] for _ in range(B)])
            vd = np.where(mask, rng.choice([0.0, np.nan]), vd)
            tim = np.arange(B) * 3600
            lat, lon, dep = np.arange(B) * 1.5, np.arange(B) * -2.5, np.array([rng.choice([np.inf, 10.0, 300.0]) for _ in range(B)])
            s2 = create_2d_spectrum(f, dirs, vd, tim, lat, lon, depth=dep)
            s1 = s2.as_frequency_spectrum()
            evals += 1
            ctx = {"ndir": nd, "dirs0": float(dirs[0]), "nf": nf, "batch": B}
            if abs(float(np.sum(s2.direction_step.values)) - 360.0) > 1e-9:
                chk.violation("step-sum", "direction bin widths do not sum to 360", dict(ctx, steps=list(map(float, s2.direction_step.values))))
            fmin, fmax = rng.choice([(0.0, np.inf), (float(f[1]), float(f[-1]))])
            names = [("m0", lambda s: s.m0(fmin, fmax)), ("hm0", lambda s: s.hm0(fmin, fmax)), ("tm01", lambda s: s.tm01(fmin, fmax)),
                     ("tm02", lambda s: s.tm02(fmin, fmax)), ("peak_frequency", lambda s: s.peak_frequency(fmin, fmax)),
                     ("peak_direction", lambda s: s.peak_direction(fmin, fmax)), ("peak_directional_spread", lambda s: s.peak_directional_spread(fmin, fmax)),
                     ("mean_direction", lambda s: s.mean_direction(fmin, fmax)), ("mean_directional_spread", lambda s: s.mean_directional_spread(fmin, fmax))]
            for name, fn in names:
                try:
                    with np.errstate(all="ignore"):
                        v2, v1 = np.asarray(fn(s2).values, dtype="float64"), np.asarray(fn(s1).values, dtype="float64")
                except Exception as ex:
                    chk.violation("raise:bulk:%s:%s" % (name, type(ex).__name__), "%s raised %s" % (name, type(ex).__name__), dict(ctx, error=str(ex)[:300]))
                    continue
                if not np.allclose(v2, v1, rtol=1e-10, atol=1e-12, equal_nan=True):
                    chk.violation("2d-to-1d:%s" % name, "converting to a 1D spectrum changed %s" % name, dict(ctx, from_2d=v2.tolist(), from_1d=v1.tolist()))
            for name in ("time", "latitude", "longitude", "depth"):
                if not np.array_equal(np.asarray(getattr(s2, name).values), np.asarray(getattr(s1, name).values)):
                    chk.violation("2d-to-1d:carry:%s" % name, "%s is not carried over to the 1D spectrum" % name, ctx)
            with np.errstate(all="ignore"):
                a1, b1 = s2.a1.values, s2.b1.values
            ok = np.nanmax(np.abs(a1)) <= 1 + 1e-12 and np.nanmax(a1 ** 2 + b1 ** 2) <= 1 + 1e-12
            if not ok:
                chk.violation("moment-bounds-float", "moments of a non-negative spectrum exceed their bounds", ctx)
            # definitional clause on the general grid (floating point): e(f) and the four moments are the sums of Directional.tla
            # with the wrapped forward bin widths (every gap of these grids is below 180 degrees) - this is what reaches uniform
            # grids whose first direction is not a whole number of bins, which no octant grid of the exact part can be
            wref = np.diff(np.append(dirs, dirs[0])) % 360.0
            th = np.deg2rad(dirs)
            with np.errstate(all="ignore"):
                eref = np.nansum(vd * wref, axis=-1)
                refs = {"e": eref, "a1": np.nansum(vd * wref * np.cos(th), axis=-1) / eref, "b1": np.nansum(vd * wref * np.sin(th), axis=-1) / eref,
                        "a2": np.nansum(vd * wref * np.cos(2 * th), axis=-1) / eref, "b2": np.nansum(vd * wref * np.sin(2 * th), axis=-1) / eref}
                for name, ref in refs.items():
                    got = np.asarray(getattr(s2, name).values, dtype="float64")
                    if got.shape != ref.shape or not np.allclose(got, ref, rtol=1e-9, atol=1e-11, equal_nan=True):
                        chk.violation("definition-float:%s" % name, "%s of a 2D spectrum on a general direction grid is not the weighted sum of its definition" % name,
                                      dict(ctx, dirs=[float(x) for x in dirs], worst=float(np.nanmax(np.abs(got - ref))) if got.shape == ref.shape else "shape"))
            chk.add("definition_float_grids")
            nontrivial += 1

        # code -> spec: widths and e(f) on random integer grids validated by TLC ----------------------------------------
        path = os.path.join(work, "c02.ndjson")
        recs = {}
        with open(path, "w") as fp:
            for j in range(200 if quick else 4000):
                nd = rng.randint(3, 16)
                while True:
                    cuts = sorted(rng.sample(range(0, 72), nd))
                    dirs = [5 * c for c in cuts]
                    gaps = [dirs[i + 1] - dirs[i] for i in range(nd - 1)] + [360 - dirs[-1] + dirs[0]]
                    if max(gaps) < 180:
                        break
                k = rng.randrange(nd)
                off = rng.choice([0, -360, 360, 720])
                regular_inside = [(g_, n_) for g_ in (5, 10, 15, 20, 30, 40, 45, 60, 90) for n_ in range(3, 40) if 180 < (n_ - 1) * g_ < 360]
                if j % 5 == 4:
                    # equal interior gaps, a different closing gap (e.g. 0, 10, ..., 340): regular to np.diff, not to the circle
                    g_, n_ = rng.choice(regular_inside)
                    st_ = 5 * rng.randint(-36, 36)
                    d2 = [st_ + i_ * g_ for i_ in range(n_)]
                elif rng.random() < 0.4:
                    d2 = dirs[k:] + dirs[:k]                     # reduced into [0, 360): the branch cut is inside the array
                else:
                    d2 = dirs[k:] + [x + 360 for x in dirs[:k]]
                    d2 = [x + off for x in d2]
                Dv = [rng.randint(0, 9) for _ in d2]
                nan = [1 if rng.random() < 0.15 else 0 for _ in d2]
                vd = np.array([[[np.nan if m else float(v) for v, m in zip(Dv, nan)]]])
                s = create_2d_spectrum(np.array([0.1]), np.array(d2, dtype="float64"), vd, np.array([0]), np.zeros(1), np.zeros(1), depth=np.array([np.inf]))
                st = [float(x) for x in s.direction_step.values]
                E = float(s.e.values[0, 0])
                evals += 1
                rec = {"id": j, "dir": d2, "D": Dv, "nan": nan,
                       "step": [int(x) if x == int(x) else -999 for x in st], "E": int(round(E)) if abs(E - round(E)) < 1e-9 else -999}
                recs[j] = rec
                fp.write(json.dumps(rec) + "\n")
        rt = common.run_tlc("DirectionalTrace", "DirectionalTrace.cfg", workers=1, timeout=3600, env={"TRACE_FILE": path})
        done = None
        for p in rt.prints:
            d = json.loads(p)
            if d.get("done"):
                done = d
                continue
            chk.violation("trace:%s" % d["what"], "recorded %s differs from the reference" % d["what"], {"record": recs[d["id"]], "expected": d["expect"]})
        if done is None or done["consumed"] != len(recs):
            chk.machinery("DirectionalTrace did not consume the trace: %s" % (rt.error or rt.out[-600:]))
        chk.set("traces_validated_against_impl", len(recs))
        demo = os.path.join(work, "demo.ndjson")
        with open(demo, "w") as fp:
            fp.write(json.dumps({"id": 0, "dir": [350, 10, 100, 200], "D": [1, 1, 1, 1], "nan": [0, 0, 0, 0], "step": [20, 90, 100, 150], "E": 370}) + "\n")
        rd = common.run_tlc("DirectionalTrace", "DirectionalTrace.cfg", workers=1, timeout=300, env={"TRACE_FILE": demo})
        okdemo = any('"what"' in p for p in rd.prints)
        chk.set("binding_demo", {"corrupted_rejected": okdemo})
        if not okdemo:
            chk.machinery("binding demonstration failed")

        # histories of one object (SpectrumSession.tla behaviours): e(f) and the four moments after queries interleaved with
        # in-place changes must be those of a new object holding the same data -----------------------------------------------
        sessions = sc1.tlc_sessions(chk, quick, chk.seed)

        def _conv(s, lo, hi):
            one = s.as_frequency_spectrum()
            return np.stack([np.asarray(one.hm0(lo, hi).values), np.asarray(one.tm01(lo, hi).values), np.asarray(one.mean_direction(lo, hi).values)])
        nrep, nq = ssn.freshness_replay(chk, sessions[:70] if quick else sessions, rng, [("2d/8 directions", ssn.build_2d), ("2d/12 directions from 7.5", lambda a, b, c: ssn.build_2d(a, b, c, ndir=12, start=7.5))],
                                        [("e", lambda s, lo, hi: s.e), ("a1", lambda s, lo, hi: s.a1), ("b1", lambda s, lo, hi: s.b1),
                                         ("a2", lambda s, lo, hi: s.a2), ("b2", lambda s, lo, hi: s.b2), ("hm0", lambda s, lo, hi: s.hm0(lo, hi)),
                                         ("1D conversion (Hm0, Tm01, mean direction)", _conv)], "C02")
        chk.add("spec_traces_replayed", nrep)
        chk.set("session_queries_compared", nq)
        evals += nq
        chk.set("evaluations", evals)
        chk.set("distinct_nontrivial", nontrivial)
        chk.assume("exact moments only on octant grids (energy at multiples of 45 degrees); general grids (8..144 bins, uniform or not) enter "
                   "through the 2D->1D commutation and, in C03, through the rotation relation")
        return chk.finish(rule="TLC enumerates octant grids x filler bins x start index x window x densities x missing fillers; every grid is "
                               "replayed with its cases as a batch; non-trivial = cases with energy (moments defined) + random general grids")
    finally:
        shutil.rmtree(work, ignore_errors=True)


def replay(path):
    with open(path) as fp:
        print(fp.read()[:4000])
    return 0
