"""Shared by drive_C13 / drive_C14: run Interp.tla, parse emitted cases, acceptance helpers,
embedding of a 1-D abstract case into real xarray datasets."""
import json
import math

from vlib import common


def tlc_cases(chk, cfg, what, timeout=3600):
    r = common.run_tlc("MCInterp", cfg, workers=16, timeout=timeout)
    chk.tlc(r, what)
    if r.violated:
        chk.violation("model:%s:%s" % (cfg, r.violated), "Interp reference semantics violates its own law %s" % r.violated,
                      {"cfg": cfg, "tlc": r.out[-2000:]})
    elif not r.ok:
        chk.machinery("TLC failed on %s: %s" % (cfg, r.error))
    cases = []
    for p in r.prints:
        try:
            cases.append(json.loads(p))
        except Exception:
            pass
    return cases


def accepts(exp_set, got, scale=1.0, offset=0.0, tol=1e-10, nan_value=None):
    """is the float `got` one of the acceptable outcomes? an expected missing value is NaN, or
    nan_value when the caller substitutes missing values (spectra: extrapolation value)"""
    for o in exp_set:
        if o[0] == "nan":
            if nan_value is None:
                if isinstance(got, float) and math.isnan(got):
                    return True
            elif got == nan_value:
                return True
        else:
            v = scale * (o[1] / o[2]) + offset
            if abs(got - v) <= tol * max(1.0, abs(v)):
                return True
    return False


def index_cases(cases):
    idx = {}
    for c in cases:
        idx[(tuple(c["xp"]), c["mode"], tuple(c["nan"]))] = c
    return idx


def other_factors(shape_other):
    """affine factor (s, c) per multi-index of the passive dimensions"""
    import itertools
    res = {}
    for lin, o in enumerate(itertools.product(*[range(n) for n in shape_other])):
        res[o] = (1.0 + 0.5 * lin, 3.0 * lin)
    return res


def embed(case, rank, pos, coord_kind, coord_name, rng, partial_nan=False):
    """Build an xarray.Dataset holding the abstract 1-D data at axis `pos` of a rank-`rank`
    variable.  Returns (dataset, targets array, factors, dims, partial index or None)."""
    import numpy as np
    import xarray
    xp = case["xp"]
    n = len(xp)
    shape = [2] * rank
    shape[pos] = n
    dims = ["d%d" % i for i in range(rank)]
    dims[pos] = coord_name
    other_shape = [s for i, s in enumerate(shape) if i != pos]
    fac = other_factors(other_shape)
    data = np.zeros(shape, dtype="float64")
    pidx = None
    nan_nodes = [j for j in range(n) if case["nan"][j]]
    if partial_nan and nan_nodes and rank > 1:
        pidx = rng.choice(list(fac.keys()))
    for o, (s, c) in fac.items():
        for j in range(n):
            idx = list(o)
            idx.insert(pos, j)
            v = s * case["f"][j] + c
            if case["nan"][j] and (pidx is None or o == pidx):
                v = np.nan
            data[tuple(idx)] = v
    if coord_kind in ("float", "int"):
        a, b = 0.5, 0.0
    elif coord_kind == "scaled":
        a, b = 0.125, 10.0
    else:
        a, b = None, None
    if coord_kind in ("float", "scaled", "int"):
        cx = np.array([a * v + b for v in xp], dtype="float64")
        tx = np.array([a * v + b for v in case["x"]], dtype="float64")
        if coord_kind == "int":
            # an integer-typed coordinate (levels, whole degrees) with targets between the nodes (half integers) and at negative values
            cx = (cx - 3.0).astype("int64")
            tx = tx - 3.0
    elif coord_kind == "degrees":
        cx = np.array(xp, dtype="float64")
        tx = np.array(case["x"], dtype="float64")
    else:  # time: half-hour units from a base instant; the axis may be stored in ns, s or ms, the targets likewise
        base = np.datetime64("2021-03-04T05:00:00", "s")
        unit_axis = {"time": "ns", "time_s": "s", "time_ms": "ms"}[coord_kind]
        unit_tgt = rng.choice(["ns", "s", "ms"])
        cx = np.array([base + np.timedelta64(1800 * int(v), "s") for v in xp]).astype("datetime64[%s]" % unit_axis)
        tx = np.array([base + np.timedelta64(1800 * int(v), "s") for v in case["x"]]).astype("datetime64[%s]" % unit_tgt)
    coords = {coord_name: cx}
    for i, d in enumerate(dims):
        if d != coord_name:
            coords[d] = np.arange(shape[i]) * 1.0
    ds = xarray.Dataset()
    ds["v"] = xarray.DataArray(data, dims=dims, coords=coords)
    pdims = [d for d in dims if d != coord_name] or ["q"]
    pshape = [2] * len(pdims)
    ds["passive"] = xarray.DataArray(np.arange(int(np.prod(pshape)), dtype="float64").reshape(pshape) + 0.25, dims=pdims)
    return ds, tx, fac, dims, pidx
