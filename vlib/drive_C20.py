"""C20 - Time integration: exact stencils, linearity, start value, jitter fallback."""
import json
import os
import random
import shutil
from fractions import Fraction

from vlib import common

PID = "C20"


def stencil_table(chk):
    r = common.run_tlc("Stencil", "Stencil.cfg", workers=1, timeout=600)
    chk.tlc(r, "36 (order, n) pairs: weights sum to one, exact on the binomial basis below the order")
    if r.violated or not r.ok:
        if r.error and "Assert" in (r.error or "") or "do not sum" in r.out or "not exact" in r.out:
            chk.violation("model:stencil", "the exact Lagrange weights violate their own laws in TLC",
                          {"tlc_tail": r.out[-2000:]})
        else:
            chk.machinery("TLC failed on Stencil: %s" % (r.error or r.violated))
    tab = {}
    for p in r.prints:
        d = json.loads(p)
        tab[(d["order"], d["n"])] = [Fraction(x, d["den"]) for x in d["num"]]
    return tab


def classify_steps(time_ms, signal, out, w, order, n, rel=1e-9):
    """for each step ii: does the increment equal the trapezoid ('T'), the stencil ('S'), both
    ('B') or neither ('N')?  exact candidates from integer inputs via Fractions."""
    m = order - n
    N = len(signal)
    obs = []
    for ii in range(1, N):
        dt = Fraction(time_ms[ii] - time_ms[ii - 1], 1000)
        trap = Fraction(signal[ii - 1] + signal[ii], 2) * dt
        sten = None
        if ii - m >= 0 and ii + n - 1 <= N - 1:
            sten = sum(w[j] * signal[ii - m + j] for j in range(order)) * dt
        inc = out[ii] - out[ii - 1]
        scale = max(abs(float(trap)), abs(float(sten)) if sten is not None else 0.0, abs(out[ii]), 1e-12)
        tol = rel * scale
        isT = abs(inc - float(trap)) <= tol
        isS = sten is not None and abs(inc - float(sten)) <= tol
        obs.append("B" if (isT and isS) else "T" if isT else "S" if isS else "N")
    return obs


def run(tier):
    quick = tier == "quick"
    chk = common.Check(PID, "model_checking", tier)
    rng = random.Random(chk.seed + 20)
    common.setup_numba_cache()
    import numpy as np
    from ocean_science_utilities.tools.time_integration import integrate, integration_stencil
    work = common.scratch_dir("c20")
    evals = 0
    try:
        # 1. exact stencil table from TLC; compare the code's floats -----------------------------
        tab = stencil_table(chk)
        if len(tab) != 36:
            chk.machinery("expected 36 stencils from TLC, got %d" % len(tab))
        for (order, n), w in sorted(tab.items()):
            got = integration_stencil(order, n)
            evals += 1
            ok = len(got) == order and all(abs(float(w[i]) - got[i]) <= 1e-9 for i in range(order))
            if not ok:
                chk.violation("stencil:%d:%d" % (order, n),
                              "integration_stencil(%d,%d) differs from the exact Lagrange weights" % (order, n),
                              {"order": order, "n": n, "expected": [str(x) for x in w], "got": list(map(float, got))})
            # float side of the same laws
            if abs(sum(got) - 1.0) > 1e-9:
                chk.violation("stencil-sum:%d:%d" % (order, n), "weights do not sum to one",
                              {"order": order, "n": n, "got": list(map(float, got))})
        chk.set("stencils_compared", len(tab))
        chk.sample({"stencil": "order 4, n 1", "exact": [str(x) for x in tab.get((4, 1), [])]})

        # 2. the acceptance relation and the restart automaton in TLC -----------------------------
        r = common.run_tlc("Integrate", "Integrate_mc.cfg" if quick else "Integrate_mc11.cfg", workers=16, timeout=1800)
        chk.tlc(r, "all step sequences over {nominal, <1%% jitter, >1%% jitter, gap} up to length %d: the code's "
                   "restart automaton is accepted by the may/must relation" % (10 if quick else 11))
        if r.violated:
            chk.violation("model:integrate:%s" % r.violated, "restart automaton rejected by the relation", {"tlc": r.out[-2000:]})
        elif not r.ok:
            chk.machinery("TLC failed on Integrate: %s" % r.error)
        rb = common.run_tlc("Integrate", "Integrate_bad.cfg", workers=4, timeout=600)
        chk.set("nonvacuity_warmup1_violates", rb.violated or "NOT VIOLATED")
        if not rb.violated:
            chk.machinery("Integrate model is vacuous: an automaton that resumes the stencil across a jitter is accepted")

        # 3. spec -> code: every step sequence of length 7 (9) with its masks ---------------------
        re_ = common.run_tlc("Integrate", "Integrate_emit7.cfg" if quick else "Integrate_emit9.cfg", workers=1, timeout=1800)
        cases = [json.loads(p) for p in re_.prints]
        if not cases:
            chk.machinery("TLC emitted no cases: %s" % (re_.error or re_.out[-500:]))
        w41 = tab[(4, 1)]
        nontrivial = 0
        for c in cases:
            d = c["d"]
            tms = [0]
            for x in d:
                tms.append(tms[-1] + x)
            t = np.array(tms, dtype="float64") / 1000.0
            for rep in range(1 if quick else 2):
                sig = [rng.randint(-9, 9) for _ in tms]
                start = float(rng.randint(-5, 5))
                out = integrate(t, np.array(sig, dtype="float64"), 4, 1, start)
                evals += 1
                obs = classify_steps(tms, sig, out, w41, 4, 1)
                bad = []
                for ii in range(1, len(tms)):
                    o = obs[ii - 1]
                    if o == "N" or (o == "S" and not c["allowed"][ii - 1]) or (o == "T" and c["required"][ii - 1]):
                        bad.append(ii)
                if out[0] != start:
                    chk.violation("start-value", "integrate() does not start at the requested start value",
                                  {"d_ms": d, "signal": sig, "start": start, "out0": float(out[0])})
                if bad:
                    chk.violation("steps:%s" % "".join(obs),
                                  "integrate() used a rule the relation forbids (or an unknown increment) at steps %s" % bad,
                                  {"d_ms": d, "signal": sig, "start": start, "observed": obs, "allowed": c["allowed"],
                                   "required": c["required"], "out": list(map(float, out))})
                if any(o == "S" for o in obs) and any(o == "T" for o in obs):
                    nontrivial += 1
        chk.set("emitted_sequences", len(cases))
        if cases:
            chk.sample({"case": cases[len(cases) // 3]})

        # 4. cubic exactness on uniform stretches, linearity (float relations) ----------------------
        nlin = 40 if quick else 600
        for j in range(nlin):
            N = rng.choice([2, 3, 5, 12, 40, 200, 2000])
            dt = rng.choice([0.1, 0.4, 0.5, 1.0, 2.5])
            t = np.arange(N) * dt
            c3, c2, c1, c0 = [rng.uniform(-1, 1) for _ in range(4)]
            sig = c3 * t**3 + c2 * t**2 + c1 * t + c0
            F = lambda x: c3 * x**4 / 4 + c2 * x**3 / 3 + c1 * x**2 / 2 + c0 * x  # noqa
            start = rng.uniform(-3, 3)
            out = integrate(t, sig, 4, 1, start)
            evals += 1
            if out[0] != start:
                chk.violation("start-value", "integrate() does not start at the requested start value",
                              {"N": N, "dt": dt, "start": start, "out0": float(out[0])})
            # deep inside the uniform stretch every increment is the exact integral of the cubic
            for ii in range(9, N):
                exact = F(t[ii]) - F(t[ii - 1])
                inc = out[ii] - out[ii - 1]
                if abs(inc - exact) > 1e-9 * max(1.0, abs(exact), abs(out[ii])):
                    chk.violation("cubic-exact", "a stencil step on a uniform grid does not add the exact integral of a cubic",
                                  {"N": N, "dt": dt, "coef": [c3, c2, c1, c0], "step": ii, "inc": float(inc), "exact": float(exact)})
                    break
            # linearity
            x = np.array([rng.uniform(-1, 1) for _ in range(N)])
            y = np.array([rng.uniform(-1, 1) for _ in range(N)])
            a, b = rng.uniform(-2, 2), rng.uniform(-2, 2)
            if N > 3:
                tj = t.copy()
                k = rng.randrange(1, N)
                tj[k:] += rng.choice([0.002, 0.05, 1.0]) * dt
            else:
                tj = t
            lhs = integrate(tj, a * x + b * y, 4, 1, 0.0)
            rhs = a * integrate(tj, x, 4, 1, 0.0) + b * integrate(tj, y, 4, 1, 0.0)
            evals += 3
            if np.max(np.abs(lhs - rhs)) > 1e-9 * max(1.0, np.max(np.abs(lhs))):
                chk.violation("linearity", "integrate() is not linear in the signal",
                              {"N": N, "a": a, "b": b, "maxdiff": float(np.max(np.abs(lhs - rhs)))})
            # ... also when one of the signals is exactly zero around the irregular step (zero padding, a late burst, an impulse)
            if N > 8:
                k = rng.randrange(2, N - 3)
                tk = t.copy()
                kind = rng.choice(["lost", "displaced", "rate"])
                if kind == "lost":
                    tk[k:] += dt
                elif kind == "displaced":
                    tk[k] += 0.05 * dt
                else:
                    tk[k:] = tk[k - 1] + 2.0 * dt * np.arange(1, N - k + 1)
                for xz in (np.where(np.arange(N) > k + 4, x, 0.0), np.where(np.arange(N) < k - 4, x, 0.0), np.where(np.arange(N) == min(N - 1, k + 6), 1.0, 0.0)):
                    lhs = integrate(tk, a * xz + b * y, 4, 1, 0.0)
                    rhs = a * integrate(tk, xz, 4, 1, 0.0) + b * integrate(tk, y, 4, 1, 0.0)
                    evals += 3
                    if np.max(np.abs(lhs - rhs)) > 1e-9 * max(1.0, np.max(np.abs(lhs))):
                        chk.violation("linearity:zeros", "integrate() is not linear in the signal (one signal is exactly zero around an irregular time step)",
                                      {"N": N, "a": a, "b": b, "irregularity": kind, "at": int(k), "maxdiff": float(np.max(np.abs(lhs - rhs)))})
                        break

        # 5. code -> spec: random grids, all (order, n), validated by IntegrateTrace ------------------------
        path = os.path.join(work, "c20.ndjson")
        nrec = 0
        recs = {}
        with open(path, "w") as fp:
            for j in range(150 if quick else 3000):
                order = rng.choice([4, 4, 4, 1, 2, 3, 5, 6, 7, 8])
                n = 1 if order == 4 and rng.random() < 0.7 else rng.randint(1, order)
                N = rng.choice([2, 3, 4, 6, 10, 25, 60, 300] + ([2000] if not quick else []))
                base = rng.choice([400, 1000, 2500])
                d = []
                # some records start slowly (a gap first, or a sampling rate that goes up later): lead-in steps of 2 .. 10 x base
                lead = rng.choice([0, 0, 0, 1, 1, 3]) if N > 6 else 0
                mult = rng.choice([2, 3, 10])
                for i_ in range(N - 1):
                    x = rng.random()
                    if i_ < lead:
                        d.append(base * mult)
                    elif x < 0.82:
                        d.append(base)
                    elif x < 0.90:
                        d.append(base + base // 200)       # 0.5 % jitter
                    elif x < 0.96:
                        d.append(base + base // 50)        # 2 % jitter
                    else:
                        d.append(base * rng.choice([2, 3]))  # gap
                tms = [0]
                for x in d:
                    tms.append(tms[-1] + x)
                sig = [rng.randint(-9, 9) for _ in tms]
                start = float(rng.randint(-4, 4))
                # the origin of the time axis is arbitrary (seconds since the start of the record, of the deployment, of an epoch): the
                # time stamps of a record far from 0 carry round-off of a few ulp, which the comparison allows for
                origin = float(rng.choice([0, 0, 0, 2 ** 24, 2 ** 27]))
                tarr = origin + np.array(tms, dtype="float64") / 1000.0
                out = integrate(tarr, np.array(sig, dtype="float64"), order, n, start)
                evals += 1
                rel = 1e-9 + 16.0 * float(np.spacing(tarr[-1])) / (min(d) / 1000.0)
                obs = classify_steps(tms, sig, out, tab[(order, n)], order, n, rel=rel)
                rec = {"id": j, "order": order, "n": n, "d": d, "obs": obs, "start": 1 if out[0] == start else 0,
                       "must": 1 if (order, n) == (4, 1) else 0}
                recs[j] = (rec, sig, start)
                fp.write(json.dumps(rec) + "\n")
                nrec += 1
                if "S" in obs and "T" in obs:
                    nontrivial += 1
        rt = common.run_tlc("IntegrateTrace", "IntegrateTrace.cfg", workers=1, timeout=1800, env={"TRACE_FILE": path})
        done = None
        for p in rt.prints:
            dd = json.loads(p)
            if dd.get("done"):
                done = dd
                continue
            rec, sig, start = recs[dd["id"]]
            if dd["start"] != 1:
                chk.violation("start-value", "integrate() does not start at the requested start value",
                              {"record": rec, "signal": sig, "start": start})
            if dd["steps"]:
                only_s = all(rec["obs"][ii - 1] == "S" for ii in dd["steps"])
                kind = "stencil-across-jitter" if only_s else "trace-steps"
                chk.violation("%s:order=%d:n=%d" % (kind, rec["order"], rec["n"]),
                              "recorded execution rejected by the relation at steps %s (order %d, n %d)" % (dd["steps"][:8], rec["order"], rec["n"]),
                              {"record": rec, "signal": sig, "start": start})
        if done is None or done["consumed"] != nrec:
            chk.machinery("IntegrateTrace did not consume the trace: %s" % (rt.error or rt.out[-600:]))
        chk.set("traces_validated_against_impl", nrec)

        # binding demonstration: a recorded 'T' turned into 'S' across a jitter must be rejected
        demo = os.path.join(work, "demo.ndjson")
        with open(demo, "w") as fp:
            fp.write(json.dumps({"id": 0, "order": 4, "n": 1, "d": [1000, 1000, 1000, 1020, 1000, 1000],
                                 "obs": ["T", "T", "T", "T", "S", "T"], "start": 1, "must": 1}) + "\n")
        rd = common.run_tlc("IntegrateTrace", "IntegrateTrace.cfg", workers=1, timeout=300, env={"TRACE_FILE": demo})
        rej = [json.loads(p) for p in rd.prints if "steps" in p]
        chk.set("binding_demo", {"corrupted_rejected": bool(rej and rej[0]["steps"] == [5])})
        if not (rej and rej[0]["steps"] == [5]):
            chk.machinery("binding demonstration failed")

        chk.set("evaluations", evals)
        chk.set("distinct_nontrivial", nontrivial)
        chk.assume("time steps on an integer millisecond lattice with jitter of 0.5 % or 2 % (never exactly 1 %), so the "
                   "code's float comparison against the 1 % threshold cannot be borderline")
        chk.assume("'must use the stencil' is demanded only 2*order jitter-free steps into a uniform stretch")
        return chk.finish(rule="stencils: all 36 (order,n) exhaustively; step sequences: all 4^7 (quick) / 4^9 (thorough) over "
                               "the alphabet, random integer signals; random grids for every (order,n); non-trivial = runs in "
                               "which both the trapezoid and the stencil were observed", exhaustive=False)
    finally:
        shutil.rmtree(work, ignore_errors=True)


def replay(path):
    with open(path) as fp:
        print(fp.read()[:4000])
    return 0
