"""C12 - Equilibrium-range wind estimate: closed form and direction conventions."""
import json
import math
import random

from vlib import common
from vlib import session_common as ssn
from vlib import spec1d_common as sc1

PID = "C12"
G = 9.81


def run(tier):
    quick = tier == "quick"
    chk = common.Check(PID, "exploration", tier)
    rng = random.Random(chk.seed + 12)
    common.setup_numba_cache()
    import numpy as np
    from ocean_science_utilities.wavephysics.windestimate import estimate_u10_from_spectrum, friction_velocity, equilibrium_range_values
    from ocean_science_utilities.wavespectra.spectrum import create_1d_spectrum, create_2d_spectrum
    evals, distinct = 0, set()
    r = common.run_tlc("EqRange", "EqRange.cfg", workers=16, timeout=1800)
    chk.tlc(r, "integer spectra with ties in E*f^4: first index of the maximum, convention map (270 - d) mod 360 is an orientation reversing involution")
    if r.violated:
        chk.violation("model:%s" % r.violated, "EqRange reference violates its own laws", {"tlc": r.out[-1200:]})
    elif not r.ok:
        chk.machinery("TLC failed on EqRange: %s" % r.error)
    cases = [json.loads(p) for p in r.prints]
    chk.set("emitted_cases", len(cases))
    if cases:
        chk.sample({"emitted_case": cases[len(cases) // 2]})
    by = {}
    for c in cases:
        by.setdefault(tuple(c["f"]), []).append(c)
    I, beta, kappa, alpha = 2.5, 0.012, 0.4, 0.012
    for fk, grp in by.items():
        if quick and len(grp) > 400:
            grp = rng.sample(grp, 400)
        B, nf = len(grp), len(fk)
        f = np.array(fk, dtype="float64") * 0.125         # Hz (dyadic: ties in E*f^4 stay exact in float)
        scale = 2.0 ** rng.choice([-13, -13, -27, -34, -20])   # m^2/Hz per unit: ordinary, weak and very weak spectra (the selection must not depend on the level)
        E = np.array([[np.nan if c["nan"][j] else c["e"][j] * scale for j in range(nf)] for c in grp])
        octs = grp[0]["oct"]
        # exact octant moments: a1 is exactly 0 for 90 / 270 degrees, b1 exactly 0 for 0 / 180 (not 6e-17)
        r_ = math.sqrt(0.5)
        cosd, sind = [1.0, r_, 0.0, -r_, -1.0, -r_, 0.0, r_], [0.0, r_, 1.0, r_, 0.0, -r_, -1.0, -r_]
        a1 = np.array([[0.9 * cosd[o % 8] for o in octs]] * B)
        b1 = np.array([[0.9 * sind[o % 8] for o in octs]] * B)
        z = np.zeros_like(a1)
        try:
            s = create_1d_spectrum(f, E, np.arange(B) * 3600, np.zeros(B), np.zeros(B), a1=a1, b1=b1, a2=z, b2=z, depth=np.full(B, np.inf))
            ev, ea1, eb1 = equilibrium_range_values(s, "peak")
            fv = friction_velocity(s, "peak")
            go = estimate_u10_from_spectrum(s, "peak", direction_convention="going_to_counter_clockwise_east")
            co = estimate_u10_from_spectrum(s, "peak", direction_convention="coming_from_clockwise_north")
        except Exception as ex:
            chk.violation("raise:%s" % type(ex).__name__, "equilibrium range estimate raised %s" % type(ex).__name__, {"f": list(fk), "error": str(ex)[:300]})
            continue
        evals += B
        for i, c in enumerate(grp):
            lvl = c["level"] * scale / 4096.0      # e * (f/8)^4
            ctx = {"f": list(fk), "e": c["e"], "nan": c["nan"]}
            distinct.add((fk, tuple(c["e"]), tuple(c["nan"])))
            if abs(float(ev[i]) - lvl) > 1e-12 * max(lvl, 1e-30):
                chk.violation("level", "equilibrium level is not the maximum of E*f^4", dict(ctx, got=float(ev[i]), expected=lvl))
                continue
            ust = 8 * math.pi ** 3 * lvl / (4 * G * I * beta)
            if abs(float(fv["friction_velocity"].values[i]) - ust) > 1e-12 * max(ust, 1e-30):
                chk.violation("friction-velocity", "friction velocity is not 8 pi^3 E_eq / (4 g I beta)", dict(ctx, got=float(fv["friction_velocity"].values[i]), expected=ust))
                continue
            if c["level"] > 0:
                d1, d2 = float(go["direction"].values[i]), float(co["direction"].values[i])
                if abs(d1 - c["going"]) > 1e-9 or abs(d2 - c["coming"]) > 1e-9 or not (0 <= d1 < 360 and 0 <= d2 < 360):
                    chk.violation("direction", "direction is not atan2(b1,a1) at the selected frequency / convention is not (270 - d) mod 360",
                                  dict(ctx, going=d1, coming=d2, expected=[c["going"], c["coming"]], index=c["idx"]))
                    continue
                z0 = alpha * ust ** 2 / G
                u10 = ust / kappa * math.log(10.0 / z0)
                if abs(float(go["u10"].values[i]) - u10) > 1e-10 * abs(u10):
                    chk.violation("u10", "U10 does not follow from the log profile with the Charnock roughness", dict(ctx, got=float(go["u10"].values[i]), expected=u10))

    # analytic f^-4 tails, both methods, non-default parameters, scaling, 2D == 1D ----------------------------------------------
    for j in range(40 if quick else 600):
        nf = rng.randint(45, 90)
        f = np.linspace(0.03, rng.uniform(0.8, 1.4), nf)
        B = rng.choice([1, 3])
        # every member of the batch has its own level, peak frequency and direction
        cls = [rng.uniform(1e-5, 5e-4) for _ in range(B)]
        ths = [rng.uniform(0, 360) for _ in range(B)]
        fps = [rng.uniform(0.1, 0.25) for _ in range(B)]
        rows = []
        for k in range(B):
            Ek = np.where(f >= fps[k], cls[k] * f ** -4.0, cls[k] * fps[k] ** -4.0 * (f / fps[k]) ** 6)
            if rng.random() < 0.3:
                Ek[rng.randrange(0, 3)] = np.nan
            rows.append(Ek)
        Eb = np.stack(rows)
        cl, th, E = cls[0], ths[0], np.nan_to_num(rows[0])
        if j % 3 == 0:
            ths[0] = float(rng.choice([0, 90, 180, 270]))        # winds along the axes: a1 or b1 exactly zero

        def cs(t):
            exact = {0.0: (1.0, 0.0), 90.0: (0.0, 1.0), 180.0: (-1.0, 0.0), 270.0: (0.0, -1.0)}
            return exact.get(t, (math.cos(math.radians(t)), math.sin(math.radians(t))))
        a1 = np.array([np.full(nf, 0.8 * cs(t)[0]) for t in ths])
        b1 = np.array([np.full(nf, 0.8 * cs(t)[1]) for t in ths])
        zz = np.zeros((B, nf))
        s = create_1d_spectrum(f, Eb, np.arange(B) * 3600, np.zeros(B), np.zeros(B), a1=a1, b1=b1, a2=zz, b2=zz, depth=np.full(B, np.inf))
        Ipar, bpar, kpar, apar = rng.uniform(2.0, 3.0), rng.uniform(0.008, 0.016), rng.choice([0.4, 0.41]), rng.uniform(0.008, 0.03)
        ctx = {"levels": cls, "directions": ths, "peaks": fps, "nf": nf, "I": Ipar, "beta": bpar, "kappa": kpar, "charnock": apar, "batch": B}
        for method in ("peak", "mean"):
            try:
                out = estimate_u10_from_spectrum(s, method, fmax=float(f[-1]), directional_spreading_constant=Ipar, phillips_constant_beta=bpar,
                                                 vonkarman_constant=kpar, charnock_constant=apar)
                outc = estimate_u10_from_spectrum(s, method, fmax=float(f[-1]), directional_spreading_constant=Ipar, phillips_constant_beta=bpar,
                                                  vonkarman_constant=kpar, charnock_constant=apar, direction_convention="coming_from_clockwise_north")
            except Exception as ex:
                chk.violation("raise:%s:%s" % (method, type(ex).__name__), "estimate_u10_from_spectrum(%s) raised" % method, dict(ctx, error=str(ex)[:300]))
                continue
            evals += 1
            distinct.add(("tail", j, method))
            for k in range(B):
                ust = 8 * math.pi ** 3 * cls[k] / (4 * G * Ipar * bpar)
                th = ths[k]
                z0 = apar * ust ** 2 / G
                u10 = ust / kpar * math.log(10.0 / z0)
                gu, g10, gd, gc = (float(out["friction_velocity"].values[k]), float(out["u10"].values[k]), float(out["direction"].values[k]),
                                   float(outc["direction"].values[k]))
                ok = abs(gu - ust) <= 1e-9 * ust and abs(g10 - u10) <= 1e-9 * u10 and abs((gd - th + 180) % 360 - 180) <= 1e-8 and \
                    abs((gc - (270 - th) + 180) % 360 - 180) <= 1e-8 and 0.0 <= gd < 360.0 and 0.0 <= gc < 360.0
                if not (ok and 0 <= gd < 360 and 0 <= gc < 360):
                    chk.violation("tail:%s" % method, "f^-4 tail of level c: friction velocity / U10 / direction differ from the closed form (%s method)" % method,
                                  dict(ctx, member=k, got=[gu, g10, gd, gc], expected=[ust, u10, th, (270 - th) % 360]))
                    break
        # 2D input gives the same answer as its 1D reduction
        nd = 24
        dirs = np.arange(nd) * 15.0
        D = E[None, :, None] * np.exp(-(((dirs - th + 180) % 360 - 180) / 35.0) ** 2)[None, None, :]
        D = np.nan_to_num(D)
        s2 = create_2d_spectrum(f, dirs, D, np.array([0]), np.zeros(1), np.zeros(1), depth=np.array([np.inf]))
        o2 = estimate_u10_from_spectrum(s2, "peak")
        o1 = estimate_u10_from_spectrum(s2.as_frequency_spectrum(), "peak")
        evals += 2
        for name in ("u10", "friction_velocity", "direction"):
            if not np.allclose(o2[name].values, o1[name].values, rtol=1e-12, atol=1e-12):
                chk.violation("2d-vs-1d:%s" % name, "a 2D spectrum gives a different %s than its 1D reduction" % name, ctx)
    # ... also for irregular spectra on a grid that reaches beyond the default fmax (0.5 Hz), both methods, batches
    for j in range(10 if quick else 200):
        nf2, nd = rng.randint(30, 60), 12
        f2 = np.linspace(0.03, rng.choice([0.49, 0.8, 1.0]), nf2)
        dirs = np.arange(nd) * 30.0 + rng.choice([0.0, 7.5])
        B = rng.choice([1, 3])
        D = np.array([[[rng.uniform(0.1, 1.0) * (0.2 + math.exp(-(((d - 40.0 * (b + 1) - 200.0 * f2[i] + 180) % 360 - 180) / 40.0) ** 2)) * f2[i] ** -3.5
                        for d in dirs] for i in range(nf2)] for b in range(B)]) * 1e-5
        try:
            s2 = create_2d_spectrum(f2, dirs, D, np.arange(B) * 3600, np.zeros(B), np.zeros(B), depth=np.full(B, np.inf))
            s1 = s2.as_frequency_spectrum()
            for method in ("peak", "mean"):
                o2 = estimate_u10_from_spectrum(s2, method)
                o1 = estimate_u10_from_spectrum(s1, method)
                evals += 2
                for name in ("u10", "friction_velocity", "direction"):
                    if not np.allclose(o2[name].values, o1[name].values, rtol=1e-10, atol=1e-10):
                        chk.violation("2d-vs-1d:irregular:%s:%s" % (method, name), "a 2D spectrum gives a different %s than its 1D reduction (%s method)" % (name, method),
                                      {"frequency_grid_end": float(f2[-1]), "batch": B, "from_2d": o2[name].values.tolist(), "from_1d": o1[name].values.tolist()})
        except Exception as ex:
            chk.violation("raise:2d-vs-1d:%s" % type(ex).__name__, "estimate on an irregular 2D spectrum raised", {"error": str(ex)[:300]})
    # histories of one object (SpectrumSession.tla behaviours): the estimate after queries interleaved with in-place changes
    sessions = sc1.tlc_sessions(chk, quick, chk.seed)

    def _est(method):
        def q(s, lo, hi):
            o = estimate_u10_from_spectrum(s, method, fmax=float(s.frequency.values[-1]), number_of_bins=2)
            return np.stack([np.asarray(o["friction_velocity"].values), np.asarray(o["u10"].values), np.asarray(o["direction"].values)])
        return q
    nrep, nq = ssn.freshness_replay(chk, sessions[:70] if quick else sessions, rng, [("1d", ssn.build_1d), ("2d/8 directions", ssn.build_2d)],
                                    [("estimate (peak)", _est("peak")), ("estimate (mean)", _est("mean"))], "C12")
    chk.add("spec_traces_replayed", nrep)
    chk.set("session_queries_compared", nq)
    evals += nq
    chk.set("evaluations", evals)
    chk.set("distinct_nontrivial", len(distinct))
    chk.assume("the specification decides the selection (first maximum of E*f^4, missing = 0) and the direction convention arithmetic on octant directions; "
               "the closed form with pi, the Charnock roughness and the log law are float comparisons (1e-9)")
    return chk.finish(rule="TLC enumerates integer spectra with ties in E*f^4; analytic f^-4 tails of random level/direction with non-default "
                           "parameters for both methods; distinct = distinct integer spectra + (tail, method) pairs")


def replay(path):
    with open(path) as fp:
        print(fp.read()[:4000])
    return 0
