"""C08 - Source terms: sign, support, scaling; bulk rates integrate the spectral rates."""
import json
import math
import os
import random
import shutil

from vlib import common
from vlib import phys_common as pc

PID = "C08"


def run(tier):
    quick = tier == "quick"
    chk = common.Check(PID, "exploration", tier)
    rng = random.Random(chk.seed + 8)
    common.setup_numba_cache()
    import numpy as np
    from ocean_science_utilities.wavephysics.balance.factory import create_balance, create_breaking_dissipation
    from ocean_science_utilities.wavespectra.spectrum import create_2d_spectrum
    work = common.scratch_dir("c08")
    evals, distinct = 0, set()
    try:
        pc.tlc_signsupport(chk)
        from vlib.drive_C05 import batch_maps
        maps = batch_maps(chk)
        f_lin = pc.freq()
        f_log = 0.04 * (1.0 / 0.04) ** (np.arange(len(f_lin)) / (len(f_lin) - 1.0))       # same number of bins, logarithmic spacing
        tr = pc.SupportTrace(os.path.join(work, "c08.ndjson"))
        balances = {"st4": create_balance("st4", "st4"), "st6": create_balance("st4", "st6"), "st4-no-saturation-term": create_balance("st4", "st4")}
        # a non-default parameter set: the saturation term switched off (only the cumulative term dissipates)
        balances["st4-no-saturation-term"].update_parameters({"saturation_breaking_constant": 0.0})
        nonrom = rng.random()
        configs = [(16, 0), (24, 0), (24, 5), (36, -170)] if quick else [(16, 0), (16, 11), (24, 0), (24, 5), (36, 0), (36, -170), (36, 5)]
        configs.append((27, "refined"))
        if not quick:
            configs = configs * 6          # the same grids with new random fields, winds and depths
        for ci, (N, start) in enumerate(configs):
            f = f_log if ci % 2 else f_lin         # the same balance objects see different grids of the same shape in turn
            delta = 360 // N if 360 % N == 0 else None
            if start == "refined":
                # non-uniform direction grid: 5 degree bins in one sector, 20 degree bins elsewhere
                dirs = [float(x) for x in list(range(0, 60, 5)) + list(range(60, 360, 20))]
                start = 0
            else:
                dirs = [start + j * (360.0 / N) for j in range(N)]
            # directions and winds as integers in units of 360/P degrees (P = 360 or 720: half degrees)
            P = 360 if all(abs(x - round(x)) < 1e-12 for x in dirs) else 720
            unit = P / 360.0
            intdirs = all(abs(x * unit - round(x * unit)) < 1e-9 for x in dirs)
            B = 3 if quick else 6
            vds, depths, winds, wdirs = [], [], [], []
            for b in range(B):
                vds.append(pc.random_field(rng, f, dirs) if b % 2 else pc.sea(f, dirs, rng.uniform(0.1, 0.3), rng.uniform(1, 4), rng.choice([0, 90, 200, 315])))
                depths.append(rng.choice([np.inf, np.inf, 30.0, 8.0]))
                winds.append(rng.uniform(1.0, 40.0))
                wdirs.append(float(rng.choice([0, 15, 90, 135, 180, 255, 345])))
            vds.append(np.zeros((len(f), N)))       # the empty spectrum
            depths.append(np.inf)
            winds.append(10.0)
            wdirs.append(45.0)
            spec = pc.spectrum(f, dirs, vds, depths)
            U, W = pc.da(winds), pc.da(wdirs)
            df, dd = spec.frequency_step.values, spec.direction_step.values
            for bname, bal in balances.items():
                ctx = {"N": N, "start": start, "dissipation": bname}
                try:
                    z0 = bal.generation.roughness(U, W, spec)
                    # the roughness iteration may report "missing" (C10); C08 is about the source terms at a given
                    # roughness length, so such points get a fixed one
                    z0 = z0.where(np.isfinite(z0), 2.0e-4)
                    gin = bal.generation.rate(spec, U, W, roughness_length=z0).values
                    dis = bal.dissipation.rate(spec).values
                    gbulk = bal.generation.bulk_rate(spec, U, W, roughness_length=z0).values
                    dbulk = bal.dissipation.bulk_rate(spec).values
                except Exception as e:
                    chk.violation("raise:%s:%s" % (bname, type(e).__name__), "source term evaluation raised %s" % type(e).__name__, dict(ctx, error=str(e)[:300]))
                    continue
                evals += len(vds)
                if not (np.all(np.isfinite(gin)) and np.all(np.isfinite(dis))):
                    chk.violation("nonfinite:%s" % bname, "source term is not finite", ctx)
                    continue
                # sign / support: recorded and judged by SignSupportTrace (integer degree grids)
                if intdirs:
                    for b in range(len(vds)):
                        en = (np.asarray(vds[b]) > 0).astype(int).tolist()
                        tr.add({"kind": "support", "what": "%s N=%d start=%d point=%d" % (bname, N, start, b), "period": P, "dir": [int(round(x * unit)) for x in dirs],
                                "w": int(round(wdirs[b] * unit)), "en": en, "inp": pc.sign_matrix(gin[b]), "dis": pc.sign_matrix(dis[b])})
                        distinct.add(("support", bname, N, start, b))
                if np.any(dis[-1] != 0.0) or dbulk[-1] != 0.0:
                    chk.violation("empty-spectrum:%s" % bname, "dissipation of an empty spectrum is not identically zero", ctx)
                # bulk = sum rate * df * dtheta with the spectrum's own bin widths
                gsum = np.sum(gin * df[None, :, None] * dd[None, None, :], axis=(1, 2))
                dsum = np.sum(dis * df[None, :, None] * dd[None, None, :], axis=(1, 2))
                if not np.allclose(gbulk, gsum, rtol=1e-10, atol=1e-18) or not np.allclose(dbulk, dsum, rtol=1e-10, atol=1e-18):
                    chk.violation("bulk:%s" % bname, "bulk rate is not the frequency-direction integral of the spectral rate",
                                  dict(ctx, generation=[gbulk.tolist(), gsum.tolist()], dissipation=[dbulk.tolist(), dsum.tolist()]))
                # scaling at fixed roughness
                cst = rng.uniform(0.2, 5.0)
                spec_c = pc.spectrum(f, dirs, [cst * np.asarray(v) for v in vds], depths)
                gin_c = bal.generation.rate(spec_c, U, W, roughness_length=z0).values
                evals += len(vds)
                if not np.allclose(gin_c, cst * gin, rtol=1e-10, atol=1e-300):
                    chk.violation("scaling:%s" % bname, "at fixed roughness the wind input is not proportional to the variance density", dict(ctx, c=cst))
                # the same (integer-valued) variance densities stored as integers: every term as for the float64 copy, bulk = integral
                # (ST4 terms only: for ST6 the library itself gives an integer-typed spectrum a dissipation 2e-3 off its float64 copy -
                # representation, not one of the property's clauses; noted in DESIGN.md 9.6)
                if ci % 2 == 0 and bname != "st6":
                    vint = [np.rint(2.0e4 * np.asarray(v)) for v in vds]
                    zfix = pc.da([2.0e-4] * len(vds))
                    try:
                        spf = pc.spectrum(f, dirs, vint, depths)
                        spi = pc.spectrum(f, dirs, [v.astype("int64") for v in vint], depths)
                        gf_, gi_ = bal.generation.rate(spf, U, W, roughness_length=zfix).values, bal.generation.rate(spi, U, W, roughness_length=zfix).values
                        df_, di_ = bal.dissipation.rate(spf).values, bal.dissipation.rate(spi).values
                        dbi = bal.dissipation.bulk_rate(spi).values
                    except Exception as e:
                        chk.violation("raise:integer-spectrum:%s" % type(e).__name__, "source terms raised for an integer-typed spectrum", dict(ctx, error=str(e)[:300]))
                    else:
                        evals += 2 * len(vds)
                        disum = np.sum(np.asarray(di_, dtype="float64") * df[None, :, None] * dd[None, None, :], axis=(1, 2))
                        if not (np.allclose(gi_, gf_, rtol=1e-12, atol=0, equal_nan=True) and np.allclose(di_, df_, rtol=1e-12, atol=0, equal_nan=True) and np.allclose(dbi, disum, rtol=1e-10, atol=1e-18, equal_nan=True)):
                            chk.violation("integer-spectrum:%s" % bname, "an integer-typed spectrum gets other source terms than its float64 copy (or bulk is not the integral)", ctx)
                # imbalance algebra
                dEdt = pc.spectrum(f, dirs, [0.01 * np.asarray(v) for v in vds], depths)
                imb = bal.evaluate_imbalance(U, W, spec, dEdt).values
                gfree = bal.generation.rate(spec, U, W).values
                if not np.allclose(imb, gfree + dis - dEdt.variance_density.values, rtol=1e-10, atol=1e-300, equal_nan=True):
                    chk.violation("imbalance:%s" % bname, "imbalance is not generation + dissipation - dE/dt", ctx)
                # ... and asking again (same objects) gives the same answers
                imb2 = bal.evaluate_imbalance(U, W, spec, dEdt).values
                dis2 = bal.dissipation.rate(spec).values
                gin2 = bal.generation.rate(spec, U, W, roughness_length=z0).values
                evals += 3 * len(vds)
                if not (np.array_equal(imb2, imb, equal_nan=True) and np.array_equal(dis2, dis) and np.array_equal(gin2, gin)):
                    chk.violation("repeatable:%s" % bname, "evaluating the imbalance / dissipation / wind input a second time on the same objects gives different values", ctx)
                bimb = bal.evaluate_bulk_imbalance(U, W, spec, dEdt).values
                if not np.allclose(bimb, bal.generation.bulk_rate(spec, U, W).values + dbulk - dEdt.m0().values, rtol=1e-10, atol=1e-18, equal_nan=True):
                    chk.violation("bulk-imbalance:%s" % bname, "bulk imbalance is not bulk generation + bulk dissipation - m0(dE/dt)", ctx)
                # bulk = integral for every combination of forcing type and supplied / internally solved roughness
                for wtype, spd in (("u10", U), ("friction_velocity", pc.da([0.04 * u for u in winds]))):
                    for zz in (None, z0):
                        try:
                            gr = bal.generation.rate(spec, spd, W, roughness_length=zz, wind_speed_input_type=wtype).values
                            gb = bal.generation.bulk_rate(spec, spd, W, roughness_length=zz, wind_speed_input_type=wtype).values
                        except Exception as e:
                            chk.violation("raise:bulk-combo:%s" % type(e).__name__, "generation rate / bulk rate raised", dict(ctx, wind_type=wtype, error=str(e)[:200]))
                            continue
                        evals += len(vds)
                        gs = np.sum(gr * df[None, :, None] * dd[None, None, :], axis=(1, 2))
                        if not np.allclose(gb, gs, rtol=1e-9, atol=1e-18, equal_nan=True):
                            chk.violation("bulk-combo:%s:%s" % (wtype, "given-z0" if zz is not None else "solved-z0"),
                                          "bulk wind input is not the integral of the spectral wind input (%s forcing, roughness %s)" % (wtype, "supplied" if zz is not None else "solved internally"),
                                          dict(ctx, bulk=gb.tolist(), integral=gs.tolist()))
                # friction-velocity input type
                ust = pc.da([0.04 * u for u in winds])
                g_u = bal.generation.rate(spec, ust, W, roughness_length=z0, wind_speed_input_type="friction_velocity").values
                evals += len(vds)
                if not (np.all(g_u >= 0) and np.all(np.isfinite(g_u))):
                    chk.violation("ustar-input:%s" % bname, "wind input with friction-velocity forcing is negative / not finite", ctx)
                # batch independence: each point alone, and permuted (repeated to vary the thread schedule)
                for rep in range(2):
                    perm = list(range(len(vds)))
                    rng.shuffle(perm)
                    sp = pc.spectrum(f, dirs, [vds[i] for i in perm], [depths[i] for i in perm])
                    Up, Wp = pc.da([winds[i] for i in perm]), pc.da([wdirs[i] for i in perm])
                    gp = bal.generation.rate(sp, Up, Wp).values
                    dp = bal.dissipation.rate(sp).values
                    gbp = bal.generation.bulk_rate(sp, Up, Wp).values
                    evals += len(vds)
                    if not (np.array_equal(gp, gfree[perm], equal_nan=True) and np.array_equal(dp, dis[perm]) and
                            np.allclose(gbp, bal.generation.bulk_rate(spec, U, W).values[perm], rtol=1e-12, atol=0, equal_nan=True)):
                        chk.violation("batch-permutation:%s" % bname, "permuting the points of a batch changes their results", dict(ctx, perm=perm))
                i = rng.randrange(len(vds))
                s1 = pc.spectrum(f, dirs, [vds[i]], [depths[i]])
                g1 = bal.generation.rate(s1, pc.da([winds[i]]), pc.da([wdirs[i]])).values[0]
                d1 = bal.dissipation.rate(s1).values[0]
                if not (np.array_equal(g1, gfree[i], equal_nan=True) and np.array_equal(d1, dis[i])):
                    chk.violation("batch-independence:%s" % bname, "a point of a batch does not get the result it gets alone", dict(ctx, point=i))
        # Romero dissipation on strictly positive spectra
        try:
            rom = create_breaking_dissipation("romero")
            f = f_lin
            dirs = [j * 15.0 for j in range(24)]
            vds = [pc.sea(f, dirs, 0.15, 3.0, 40.0) + 1e-9, pc.sea(f, dirs, 0.25, 1.5, 200.0) + 1e-9]
            spec = pc.spectrum(f, dirs, vds)
            dr = rom.rate(spec).values
            evals += 2
            for b in range(2):
                tr.add({"kind": "support", "what": "romero point=%d" % b, "period": 360, "dir": [int(x) for x in dirs], "w": 0,
                        "en": (np.asarray(vds[b]) > 0).astype(int).tolist(), "inp": [[0] * 24] * len(f), "dis": pc.sign_matrix(dr[b])})
            dsum = np.sum(dr * spec.frequency_step.values[None, :, None] * spec.direction_step.values[None, None, :], axis=(1, 2))
            if not np.allclose(rom.bulk_rate(spec).values, dsum, rtol=1e-10):
                chk.violation("bulk:romero", "Romero bulk dissipation is not the integral of the spectral rate", {})
        except Exception as e:
            chk.violation("raise:romero:%s" % type(e).__name__, "Romero dissipation raised %s" % type(e).__name__, {"error": str(e)[:300]})
        tr.validate(chk, "C08")
        # binding demonstration
        demo = os.path.join(work, "demo.ndjson")
        with open(demo, "w") as fp:
            fp.write(json.dumps({"id": 0, "kind": "support", "period": 360, "dir": [0, 90, 180, 270], "w": 0, "en": [[1, 1, 1, 1]], "inp": [[1, 0, 1, 0]], "dis": [[-1, -1, 0, 0]]}) + "\n")
        rd = common.run_tlc("SignSupportTrace", "SignSupportTrace.cfg", workers=1, timeout=300, env={"TRACE_FILE": demo})
        okdemo = any("SignSupport" in p for p in rd.prints)
        chk.set("binding_demo", {"corrupted_rejected": okdemo, "field": "wind input > 0 in the upwind bin (180 degrees)"})
        if not okdemo:
            chk.machinery("binding demonstration failed")
        # histories of one long-lived balance (BalanceSession.tla behaviours): evaluations interleaved with parameter updates
        from vlib import balance_session as bs
        behs = bs.tlc_behaviours(chk, "c08", quick, chk.seed)
        nb_ = 0
        for pair_ in (("st4", "st4"), ("st4", "st6")):
            nb_ += bs.replay(chk, behs, pair_, "C08")
        chk.add("spec_traces_replayed", len(behs))
        chk.set("balance_session_evaluations_compared", nb_)
        evals += nb_
        chk.set("evaluations", evals)
        chk.set("distinct_nontrivial", len(distinct))
        chk.assume("sign / support are decided by the specification on integer-degree grids (bins at exactly +-90 degrees from the wind unspecified); "
                   "bulk = sum of rate * df * dtheta, scaling and the imbalance algebra are float comparisons (1e-10)")
        return chk.finish(rule="JONSWAP seas, sea+swell mixtures, random fields with zero bins and the empty spectrum x U10 1..40 x wind directions x finite / "
                               "infinite depth x N in {16,24,36} with different grid starts x ST4/ST6 (Romero on positive spectra); distinct = recorded (term, grid, point) sign patterns")
    finally:
        shutil.rmtree(work, ignore_errors=True)


def replay(path):
    from vlib import phys_common
    return phys_common.replay_record(path, "SignSupportTrace", "SignSupportTrace.cfg")
