"""Dispatcher: ./check <property id> [--tier quick|thorough] [--replay path]"""
import argparse
import importlib
import os
import sys
import traceback


def main():
    ap = argparse.ArgumentParser()
    ap.add_argument("pid")
    ap.add_argument("--tier", default=os.environ.get("VERIF_TIER", "quick"),
                    choices=["quick", "thorough"])
    ap.add_argument("--replay", default=None)
    a = ap.parse_args()
    pid = a.pid.upper()
    try:
        mod = importlib.import_module("vlib.drive_%s" % pid)
    except ModuleNotFoundError as e:
        print("no driver for %s: %s" % (pid, e))
        return 2
    try:
        if a.replay:
            return int(mod.replay(a.replay) or 0)
        return int(mod.run(a.tier) or 0)
    except SystemExit:
        raise
    except BaseException:
        traceback.print_exc()
        print("MACHINERY-FAILURE property=%s driver crashed" % pid)
        from vlib import common
        # a violation that was already reported stays a violation: exit 1 (the crash only cut the exploration short)
        return 1 if common.PRINTED_VIOLATIONS else 2


if __name__ == "__main__":
    sys.exit(main())
