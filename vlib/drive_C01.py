"""C01 - Spectral moments and integral wave parameters equal their defining integrals."""
import json
import math
import os
import random
import shutil

from vlib import common
from vlib import spec1d_common as sc

PID = "C01"


def close(a, b, tol=1e-12):
    if math.isnan(a) or math.isnan(b):
        return math.isnan(a) and math.isnan(b)
    if math.isinf(a) or math.isinf(b):
        return a == b
    return abs(a - b) <= tol * max(1.0, abs(a), abs(b))


def run(tier):
    quick = tier == "quick"
    chk = common.Check(PID, "model_checking", tier)
    rng = random.Random(chk.seed + 1)
    common.setup_numba_cache()
    import numpy as np
    from ocean_science_utilities.wavespectra.spectrum import create_1d_spectrum, create_2d_spectrum
    work = common.scratch_dir("c01")
    evals, nontrivial = 0, 0
    try:
        sc.tlc_laws(chk, quick)
        cases = sc.tlc_cases(chk, quick)
        if not cases:
            chk.machinery("TLC emitted no cases")
        chk.set("emitted_cases", len(cases))
        if cases:
            c = cases[len(cases) // 2]
            chk.sample({"emitted_case": {"f": c["f"], "e": c["e"], "nan": c["nan"], "bands": c["bands"][:3]}})
        groups = sc.groups(cases, 3, rng)
        if quick:
            groups = rng.sample(groups, min(len(groups), 220))
        for g in groups:
            layout = rng.choice(["scalar", "time", "time_lat", "flat"])
            kind = rng.choice(["1d", "1d", "2d", "2dnu"])
            scale = rng.choice([1.0, 0.125])
            batch = g[:1] if layout == "scalar" else g
            ctx = {"f": batch[0]["f"], "layout": layout, "kind": kind, "frequency_scale": scale}
            try:
                s = sc.build(batch, layout, kind, scale)
            except Exception as e:
                chk.violation("raise:build:%s" % type(e).__name__, "building the spectrum raised", dict(ctx, error=str(e)[:300]))
                continue
            nb = len(batch[0]["bands"])
            for bi in rng.sample(range(nb), min(nb, 4 if quick else 8)):
                fmin, fmax = sc.band_of(batch[0]["bands"][bi], scale)
                try:
                    mom = [s.frequency_moment(n, fmin, fmax).values for n in range(5)]
                    m0, m1, m2 = s.m0(fmin, fmax).values, s.m1(fmin, fmax).values, s.m2(fmin, fmax).values
                    with np.errstate(all="ignore"):
                        hm0, tm01, tm02 = s.hm0(fmin, fmax).values, s.tm01(fmin, fmax).values, s.tm02(fmin, fmax).values
                except Exception as e:
                    chk.violation("raise:moments:%s" % type(e).__name__, "moment computation raised %s" % type(e).__name__,
                                  dict(ctx, band=[fmin, fmax], error=str(e)[:300]))
                    break
                evals += 1
                stop = False
                for i, c in enumerate(batch):
                    b = c["bands"][bi]
                    for second in ((False, True) if layout in ("time_lat", "flat") else (False,)):
                        fac = 2.0 if second else 1.0
                        exp = [fac * b["m"][n] / 2.0 * scale ** (n + 1) for n in range(5)]
                        got = [sc.value_at(mom[n], layout, i, second) for n in range(5)]
                        cc = dict(ctx, e=c["e"], nan=c["nan"], band=[fmin, fmax], batch_index=i)
                        if not all(close(got[n], exp[n]) for n in range(5)):
                            chk.violation("moment:%s:%s" % (kind, layout), "frequency moment differs from the trapezoidal integral over the band",
                                          dict(cc, expected=exp, got=got))
                            stop = True
                            break
                        g0, g1, g2 = (sc.value_at(x, layout, i, second) for x in (m0, m1, m2))
                        if not (close(g0, exp[0]) and close(g1, exp[1]) and close(g2, exp[2])):
                            chk.violation("m0m1m2", "m0/m1/m2 differ from frequency_moment", dict(cc, got=[g0, g1, g2], expected=exp[:3]))
                            stop = True
                            break
                        h, t1, t2 = (sc.value_at(x, layout, i, second) for x in (hm0, tm01, tm02))
                        ok = close(h * h, 16.0 * exp[0], 1e-11)
                        if exp[1] > 0:
                            ok = ok and close(t1 * exp[1], exp[0], 1e-11)
                        if exp[2] > 0:
                            ok = ok and close(t2 * t2 * exp[2], exp[0], 1e-11)
                        if exp[0] > 0 and exp[1] > 0 and exp[2] > 0:
                            ok = ok and t2 <= t1 * (1 + 1e-12)
                            nontrivial += 1
                        if not ok:
                            chk.violation("integral-parameters", "Hm0 / Tm01 / Tm02 are not 4*sqrt(m0), m0/m1, sqrt(m0/m2)",
                                          dict(cc, hm0=h, tm01=t1, tm02=t2, moments=exp[:3]))
                            stop = True
                            break
                    if stop:
                        break
                if stop:
                    break

        # relational laws on random float spectra (scale, sum, period invariance) -------------------------------
        for j in range(60 if quick else 800):
            nf = rng.randint(3, 30)
            f = np.cumsum(np.array([rng.uniform(0.01, 0.1) for _ in range(nf)]))
            if rng.random() < 0.3:
                f[0] = 0.0
            E1 = np.array([rng.uniform(0, 5) if rng.random() > 0.1 else 0.0 for _ in range(nf)])
            E2 = np.array([rng.uniform(0, 5) for _ in range(nf)])
            cst = rng.uniform(0.1, 9.0)
            fmin = rng.choice([0.0, float(f[rng.randrange(nf)]), rng.uniform(0, f[-1])])
            fmax = rng.choice([np.inf, float(f[rng.randrange(nf)]), rng.uniform(0, f[-1] * 1.1)])

            def mk(E):
                return create_1d_spectrum(f, E[None, :], np.array([0]), np.array([0.0]), np.array([0.0]), depth=np.array([np.inf]))
            if j % 4 == 3:
                # integer-typed variance densities (counts, scaled integers): exact in the library, scaled by a non-integer factor
                E1 = np.array([rng.randint(0, 9) for _ in range(nf)], dtype=rng.choice(["int64", "int32"]))
                E2 = np.array([rng.randint(0, 9) for _ in range(nf)], dtype="int64")
            s1, s2 = mk(E1), mk(E2)
            # the sum is formed from the SAME objects whose moments are taken afterwards (and a difference restores nothing)
            ssum, sdif, ssc = s1 + s2, s2 - s1, s1.multiply(np.full((1, nf), cst))
            evals += 1
            ctx = {"f": list(map(float, f)), "E1": list(map(float, E1)), "E2": list(map(float, E2)), "c": cst, "band": [fmin, float(fmax)]}
            for n in range(5):
                a, b = float(s1.frequency_moment(n, fmin, fmax).values[0]), float(s2.frequency_moment(n, fmin, fmax).values[0])
                if not close(float(ssum.frequency_moment(n, fmin, fmax).values[0]), a + b, 1e-10):
                    chk.violation("law:sum", "moments of a sum are not the sum of the moments", dict(ctx, n=n))
                    break
                if not close(float(sdif.frequency_moment(n, fmin, fmax).values[0]), b - a, 1e-10):
                    chk.violation("law:difference", "moments of a difference are not the difference of the moments", dict(ctx, n=n))
                    break
                if not close(float(ssc.frequency_moment(n, fmin, fmax).values[0]), cst * a, 1e-10):
                    chk.violation("law:scale", "scaling the spectrum does not scale the moment", dict(ctx, n=n))
                    break
            with np.errstate(all="ignore"):
                h1, hs = float(s1.hm0(fmin, fmax).values[0]), float(ssc.hm0(fmin, fmax).values[0])
                t1, ts = float(s1.tm01(fmin, fmax).values[0]), float(ssc.tm01(fmin, fmax).values[0])
                z1, zs = float(s1.tm02(fmin, fmax).values[0]), float(ssc.tm02(fmin, fmax).values[0])
            if not close(hs, math.sqrt(cst) * h1, 1e-10):
                chk.violation("law:hm0-scale", "Hm0 does not scale with sqrt(c)", dict(ctx, hm0=h1, hm0_scaled=hs))
            if float(s1.m0(fmin, fmax).values[0]) > 0 and float(s1.m1(fmin, fmax).values[0]) > 0:
                inband = [x for x in f if fmin <= x < fmax]
                if not (close(ts, t1, 1e-10) and close(zs, z1, 1e-10)):
                    chk.violation("law:period-scale", "periods are not scale invariant", dict(ctx, tm01=[t1, ts], tm02=[z1, zs]))
                if inband and inband[0] > 0 and not (z1 <= t1 * (1 + 1e-12) and 1.0 / inband[-1] * (1 - 1e-12) <= z1 and t1 <= 1.0 / inband[0] * (1 + 1e-12)):
                    chk.violation("law:period-bounds", "Tm02 <= Tm01 within [1/f_last, 1/f_first] violated", dict(ctx, tm01=t1, tm02=z1))

        # histories of one object: TLC behaviours of SpectrumSession.tla replayed (queries interleaved with in-place changes) ----
        sessions = sc.tlc_sessions(chk, quick, chk.seed)
        nrep, nq = sc.session_replay(chk, sessions, rng, "moments")
        chk.add("spec_traces_replayed", nrep)
        chk.set("session_queries_compared", nq)
        evals += nq

        # code -> spec: random larger integer spectra validated by TLC -------------------------------------------
        path = os.path.join(work, "c01.ndjson")
        recs = {}
        with open(path, "w") as fp:
            for j in range(150 if quick else 6000):
                nf = rng.randint(2, 12)
                f = sorted(rng.sample(range(0, 13), nf))
                e = [rng.randint(0, 20) for _ in f]
                nan = [1 if rng.random() < 0.12 else 0 for _ in f]
                lo2 = rng.choice([0, -1] + [2 * x for x in f] + [2 * x - 1 for x in f])
                hi2 = rng.choice([sc.INF2] + [2 * x for x in f] + [2 * x + 1 for x in f])
                if hi2 != sc.INF2 and hi2 <= lo2:
                    hi2 = sc.INF2
                line = {"f": f, "e": e, "nan": nan}
                layout = rng.choice(["scalar", "time"])
                s = sc.build([line], layout, rng.choice(["1d", "2d", "2dnu"]))
                fmin, fmax = sc.band_of({"lo2": lo2, "hi2": hi2})
                m2 = []
                for n in range(5):
                    v = 2.0 * sc.value_at(s.frequency_moment(n, fmin, fmax).values, layout, 0)
                    m2.append(int(round(v)) if abs(v - round(v)) < 1e-6 * max(1.0, abs(v)) else -1)
                try:
                    pk = int(sc.value_at(s.peak_index(fmin, fmax).values, layout, 0)) + 1
                except Exception:
                    pk = 0
                evals += 1
                rec = {"id": j, "f": f, "e": e, "nan": nan, "lo2": lo2, "hi2": hi2, "m2": m2, "pk": pk}
                recs[j] = rec
                fp.write(json.dumps(rec) + "\n")
        rt = common.run_tlc("Spectrum1DTrace", "Spectrum1DTrace.cfg", workers=1, timeout=3600, env={"TRACE_FILE": path})
        done = None
        for p in rt.prints:
            d = json.loads(p)
            if d.get("done"):
                done = d
                continue
            if [b for b in d["bad"] if b != 99]:
                chk.violation("trace-moment", "recorded moment differs from the reference (n=%s)" % [b for b in d["bad"] if b != 99],
                              {"record": recs[d["id"]], "expected_2m": d["expect"]})
        if done is None or done["consumed"] != len(recs):
            chk.machinery("Spectrum1DTrace did not consume the trace: %s" % (rt.error or rt.out[-600:]))
        chk.set("traces_validated_against_impl", len(recs))
        demo = os.path.join(work, "demo.ndjson")
        with open(demo, "w") as fp:
            fp.write(json.dumps({"id": 0, "f": [1, 2, 4], "e": [1, 3, 2], "nan": [0, 0, 0], "lo2": 0, "hi2": 999,
                                 "m2": [14, 33, 101, 329, 1169], "pk": 2}) + "\n")
        rd = common.run_tlc("Spectrum1DTrace", "Spectrum1DTrace.cfg", workers=1, timeout=300, env={"TRACE_FILE": demo})
        rej = [json.loads(p) for p in rd.prints if '"bad"' in p]
        okdemo = bool(rej) and rej[0]["bad"] == [1] and rej[0]["expect"][0] == 14
        chk.set("binding_demo", {"corrupted_rejected": okdemo, "field": "2*m1 := 33 (true value 35)"})
        if not okdemo:
            chk.machinery("binding demonstration failed: %s" % rej)

        chk.set("evaluations", evals)
        chk.set("distinct_nontrivial", nontrivial)
        chk.assume("integer (and 1/8-scaled) frequencies and integer densities make every trapezoid exact in float64")
        return chk.finish(rule="TLC enumerates grids x value vectors x masks and all bands (laws) / representative bands (emission); each "
                               "batch of emitted spectra is built in a random layout (scalar, time, time x latitude, flattened; 1D or 2D) "
                               "and every moment / Hm0 / Tm01 / Tm02 compared; non-trivial = (spectrum, band) pairs with m0,m1,m2 > 0")
    finally:
        shutil.rmtree(work, ignore_errors=True)


def replay(path):
    with open(path) as fp:
        print(fp.read()[:4000])
    return 0
