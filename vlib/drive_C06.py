"""C06 - Estimators reproduce the input moments; solvers agree; output rotates with input."""
import json
import math
import random

from vlib import common

PID = "C06"
HARD = [[0.557185, -0.795699, -0.305963, -0.884653], [-0.564027, -0.505376, -0.231672, 0.471163],
        [-0.533724, 0.751711, -0.27957, -0.808407], [0.458456, -0.848485, -0.515151, -0.753666],
        [0.458456 + 0.06, -0.848485, -0.515151, -0.753666]]


def moments_of(D, dirs_deg):
    import numpy as np
    th = np.radians(dirs_deg)
    w = 360.0 / len(dirs_deg)
    return np.array([np.sum(D * np.cos(th)) * w, np.sum(D * np.sin(th)) * w, np.sum(D * np.cos(2 * th)) * w, np.sum(D * np.sin(2 * th)) * w])


def lygre_krogstad(m, dirs_deg):
    """the maximum-entropy (Lygre & Krogstad 1986) distribution of the four moments, sampled on the grid (per degree, sum * step = 1)"""
    import numpy as np
    th = np.radians(np.asarray(dirs_deg, dtype="float64"))
    c1, c2 = complex(m[0], m[1]), complex(m[2], m[3])
    p1 = (c1 - c2 * c1.conjugate()) / (1.0 - abs(c1) ** 2)
    p2 = c2 - c1 * p1
    se = 1.0 - p1 * c1.conjugate() - p2 * c2.conjugate()
    D = np.real(se) / np.abs(1.0 - p1 * np.exp(-1j * th) - p2 * np.exp(-2j * th)) ** 2
    return D / (np.sum(D) * (360.0 / len(th)))


def act_on_moments(m, s, alpha_deg):
    """moments of the distribution g.D, g(theta) = s*theta + alpha"""
    a1, b1, a2, b2 = m
    if s == -1:
        b1, b2 = -b1, -b2
    ca, sa, c2, s2 = math.cos(math.radians(alpha_deg)), math.sin(math.radians(alpha_deg)), math.cos(math.radians(2 * alpha_deg)), math.sin(math.radians(2 * alpha_deg))
    return [a1 * ca - b1 * sa, a1 * sa + b1 * ca, a2 * c2 - b2 * s2, a2 * s2 + b2 * c2]


def run(tier):
    quick = tier == "quick"
    chk = common.Check(PID, "exploration", tier)
    rng = random.Random(chk.seed + 6)
    common.setup_numba_cache()
    import numpy as np
    from ocean_science_utilities.wavespectra.estimators.estimate import estimate_directional_distribution as est
    from ocean_science_utilities.wavespectra.estimators import mem2 as M2
    from ocean_science_utilities.wavespectra.estimators.utils import get_direction_increment
    evals, distinct = 0, set()
    Ns = [24, 36] if quick else [24, 36, 72, 144]
    variants = [("mem", {}), ("mem2", {"solution_method": "newton"}), ("mem2", {"solution_method": "scipy"})]

    def vn(v):
        return v[0] + ("" if not v[1] else ":" + v[1]["solution_method"])

    def mixture(N, cap=30.0):
        """moments of a von Mises mixture the grid resolves (circular spread >= 1.5 bins)"""
        th = np.linspace(0, 2 * np.pi, 7200, endpoint=False)
        delta = 2 * math.pi / N
        while True:
            kmax = 1.0 / (1.5 * delta) ** 2          # circular spread ~ 1/sqrt(kappa) >= 1.5 bins
            k1 = rng.uniform(0.5, min(kmax, cap))
            k2 = rng.uniform(0.5, min(kmax, cap))
            m1, m2 = rng.uniform(0, 2 * math.pi), rng.uniform(0, 2 * math.pi)
            w2, bg = rng.choice([0.0, rng.uniform(0.05, 0.5)]), rng.uniform(0.0, 0.2)
            D = (1 - w2) * np.exp(k1 * (np.cos(th - m1) - 1)) / np.sum(np.exp(k1 * (np.cos(th - m1) - 1)))
            D = D + w2 * np.exp(k2 * (np.cos(th - m2) - 1)) / np.sum(np.exp(k2 * (np.cos(th - m2) - 1)))
            D = (1 - bg) * D / np.sum(D) + bg / len(th)
            mm = [float(np.sum(D * np.cos(th))), float(np.sum(D * np.sin(th))), float(np.sum(D * np.cos(2 * th))), float(np.sum(D * np.sin(2 * th)))]
            if mm[0] ** 2 + mm[1] ** 2 < 0.98:
                return mm

    for N in Ns:
        els = common.symmetry_elements(chk, N, 0)
        d = np.linspace(0, 360, N, endpoint=False)
        nmix = 40 if quick else 1500
        mix = np.array([mixture(N) for _ in range(nmix)])
        res = {}
        for v in variants:
            try:
                res[vn(v)] = est(mix[:, 0].copy(), mix[:, 1].copy(), mix[:, 2].copy(), mix[:, 3].copy(), d, method=v[0], **v[1])
            except Exception as e:
                chk.violation("raise:%s:%s" % (vn(v), type(e).__name__), "estimator %s raised on resolvable moments" % vn(v), {"N": N, "error": str(e)[:300]})
        evals += nmix * len(res)
        # fidelity: the reconstructed distribution reproduces the input moments
        for name, D in res.items():
            for i in range(nmix):
                err = float(np.linalg.norm(moments_of(D[i], d) - mix[i]))
                # MEM: "a grid-dependent discretisation bound" = the error of the Lygre-Krogstad formula itself sampled on this grid (at least 0.05)
                bound = 0.0101 if name.startswith("mem2") else max(0.05, 1.05 * float(np.linalg.norm(moments_of(lygre_krogstad(mix[i], d), d) - mix[i])) + 1e-9)
                distinct.add((name, N, i))
                if not err <= bound:
                    chk.violation("fidelity:%s" % name, "%s does not reproduce the input moments (four-moment norm %.4f > %.4f)" % (name, err, bound),
                                  {"N": N, "moments": mix[i].tolist(), "reconstructed": moments_of(D[i], d).tolist()})
                    break
        # solvers agree
        if "mem2:newton" in res and "mem2:scipy" in res:
            for i in range(nmix):
                err = float(np.linalg.norm(moments_of(res["mem2:newton"][i], d) - moments_of(res["mem2:scipy"][i], d)))
                if not err <= 0.0201:
                    chk.violation("solver-agreement", "Newton and scipy MEM2 solutions disagree beyond the solver tolerance",
                                  {"N": N, "moments": mix[i].tolist(), "difference_in_moment_norm": err})
                    break
        # equivariance: rotate / mirror the input moments with every group element (spec supplies the permutation)
        sel = els if not quick else rng.sample(els, 10)
        for el in sel:
            alpha = el["shift"][0] / el["shift"][1]
            perm = np.array(el["perm"])
            sub = rng.sample(range(nmix), 6 if quick else 25)
            mm2 = np.array([act_on_moments(mix[i], el["s"], alpha) for i in sub])
            for v in variants:
                if vn(v) not in res:
                    continue
                try:
                    D2 = est(mm2[:, 0].copy(), mm2[:, 1].copy(), mm2[:, 2].copy(), mm2[:, 3].copy(), d, method=v[0], **v[1])
                except Exception as e:
                    chk.violation("raise:rotated:%s:%s" % (vn(v), type(e).__name__), "estimator raised on rotated moments", {"N": N, "k": el["k"], "s": el["s"], "error": str(e)[:200]})
                    continue
                evals += len(sub)
                for jj, i in enumerate(sub):
                    want = res[vn(v)][i][perm]
                    if v[0] == "mem" or vn(v) == "mem2:newton":
                        # MEM is a closed form and the Newton iteration stops on a rotation invariant criterion (the
                        # Euclidean norm of the moment residual): both are equivariant to round-off
                        ok = np.allclose(D2[jj], want, rtol=1e-7, atol=1e-8 * float(np.max(want)))
                    else:
                        # within the solver tolerance, measured in moment space
                        ok = float(np.linalg.norm(moments_of(D2[jj], d) - moments_of(want, d))) <= 0.0201
                        ok = ok and np.allclose(D2[jj], want, rtol=0.2, atol=0.05 * float(np.max(want)))
                    distinct.add(("rot", vn(v), N, el["k"], el["s"], i))
                    if not ok:
                        chk.violation("equivariance:%s" % vn(v), "%s: rotating / mirroring the input moments does not rotate / mirror the distribution" % vn(v),
                                      {"N": N, "k": el["k"], "s": el["s"], "moments": mix[i].tolist(), "max_abs_diff": float(np.max(np.abs(D2[jj] - want))),
                                       "max": float(np.max(want))})
                        break
    # the shipped hard cases, their rotations and mirrors (N = 36) ---------------------------------------------------------------------
    N = 36
    els = common.symmetry_elements(chk, N, 0)
    d = np.linspace(0, 360, N, endpoint=False)
    for ci, hc in enumerate(HARD):
        base = {}
        for v in variants[1:]:
            base[vn(v)] = est(np.array([hc[0]]), np.array([hc[1]]), np.array([hc[2]]), np.array([hc[3]]), d, method=v[0], **v[1])[0]
        for el in (els if not quick else rng.sample(els, 8)):
            mm = act_on_moments(hc, el["s"], el["shift"][0] / el["shift"][1])
            for v in variants[1:]:
                try:
                    D = est(np.array([mm[0]]), np.array([mm[1]]), np.array([mm[2]]), np.array([mm[3]]), d, method=v[0], **v[1])[0]
                except Exception as e:
                    chk.violation("raise:hard:%s:%s" % (vn(v), type(e).__name__), "estimator raised on a hard case orbit", {"moments": mm, "error": str(e)[:200]})
                    continue
                evals += 1
                err = float(np.linalg.norm(moments_of(D, d) - np.array(mm)))
                want = base[vn(v)][np.array(el["perm"])]
                distinct.add(("hard", ci, el["k"], el["s"], vn(v)))
                valid = np.all(np.isfinite(D)) and np.min(D) >= -1e-12 and abs(np.sum(D) * 10.0 - 1) < 1e-6
                equiv = np.allclose(D, want, rtol=1e-3, atol=1e-3 * float(np.max(want)))
                # case 4 (the perturbed one, spread 6 degrees on a 10 degree grid) is not resolved by the grid: fidelity not demanded
                fid = err <= 0.0101 or ci == 4
                if not (valid and equiv and fid):
                    chk.violation("hard-case:%s" % vn(v), "hard case %d (rotated by %d bins, s=%d): valid=%s equivariant=%s moment error %.4f" % (ci, el["k"], el["s"], valid, equiv, err),
                                  {"moments": mm, "reconstructed": moments_of(D, d).tolist()})
    # Jacobian = derivative of the moment constraints ---------------------------------------------------------------------------------------
    for N in Ns[:2]:
        dr = np.radians(np.linspace(0, 360, N, endpoint=False))
        inc = get_direction_increment(dr)
        tw = np.zeros((4, N))
        tw[0], tw[1], tw[2], tw[3] = np.cos(dr), np.sin(dr), np.cos(2 * dr), np.sin(2 * dr)
        for rep in range(10 if quick else 1000):
            mom = np.array(mixture(N))
            lam = M2.initial_value(np.array(mom[0]), np.array(mom[1]), np.array(mom[2]), np.array(mom[3])) + np.array([rng.uniform(-0.3, 0.3) for _ in range(4)])
            jac = M2.mem2_jacobian(lam, tw, inc, np.zeros((4, 4)))
            num = np.zeros((4, 4))
            h = 1e-5
            for n in range(4):
                dl = np.zeros(4)
                dl[n] = h
                num[:, n] = (M2.moment_constraints(lam + dl, tw, mom, inc) - M2.moment_constraints(lam - dl, tw, mom, inc)) / (2 * h)
            evals += 1
            if not np.allclose(jac, num, rtol=1e-5, atol=1e-7):
                chk.violation("jacobian", "the MEM2 Jacobian is not the derivative of the moment-constraint function",
                              {"N": N, "lambdas": lam.tolist(), "moments": mom.tolist(), "max_abs_diff": float(np.max(np.abs(jac - num)))})
                break
    # fine grids, narrow but resolved lobes (spread 2..6 bins): the Newton solver needs many steps; fidelity and Newton / scipy agreement
    for N in ([144] if quick else [72, 144]):
        d = np.linspace(0, 360, N, endpoint=False)
        nmix = 60 if quick else 2000
        th_ = np.linspace(0, 2 * np.pi, 7200, endpoint=False)

        def narrow():
            D = np.zeros_like(th_)
            for _ in range(rng.choice([1, 2])):
                kap = 1.0 / (2 * math.pi / N * rng.uniform(1.5, 6.0)) ** 2
                lobe = np.exp(kap * (np.cos(th_ - rng.uniform(0, 2 * math.pi)) - 1.0))
                D = D + rng.uniform(0.3, 1.0) * lobe / np.sum(lobe)
            D = D / np.sum(D)
            bg = rng.choice([0.0, 0.01, 0.03, 0.1])
            D = (1 - bg) * D + bg / len(th_)
            return [float(np.sum(D * np.cos(th_))), float(np.sum(D * np.sin(th_))), float(np.sum(D * np.cos(2 * th_))), float(np.sum(D * np.sin(2 * th_)))]
        mix = np.array([narrow() for _ in range(nmix)])
        try:
            Dn = est(mix[:, 0].copy(), mix[:, 1].copy(), mix[:, 2].copy(), mix[:, 3].copy(), d, method="mem2", solution_method="newton")
        except Exception as e:
            chk.violation("raise:narrow:%s" % type(e).__name__, "MEM2 / Newton raised on narrow resolved lobes", {"N": N, "error": str(e)[:300]})
            continue
        evals += nmix
        for i in range(nmix):
            err = float(np.linalg.norm(moments_of(Dn[i], d) - mix[i]))
            distinct.add(("narrow", N, i))
            if not err <= 0.0101:
                chk.violation("fidelity:narrow:mem2:newton", "MEM2 / Newton does not reproduce the input moments of a narrow resolved lobe (four-moment norm %.4f > 0.01)" % err,
                              {"N": N, "moments": mix[i].tolist(), "reconstructed": moments_of(Dn[i], d).tolist()})
                break
    # slowly varying sequences in one call (a sea veering by 0.025 degrees per member, a lobe widening slowly): every member is an
    # ordinary mixture of the quantifier and must be reconstructed like any other - whatever its neighbour in the batch is
    th_ = np.linspace(0, 2 * np.pi, 7200, endpoint=False)
    for N in ([36] if quick else [24, 36, 72]):
        d = np.linspace(0, 360, N, endpoint=False)
        for kind in ("veering", "widening"):
            nseq = 60 if quick else 160
            m0_, spread0 = rng.uniform(0, 2 * math.pi), (2 * math.pi / N) * rng.uniform(2.5, 4.0)
            seq = []
            for i in range(nseq):
                mean_ = m0_ + (math.radians(0.025) * i if kind == "veering" else 0.0)
                spr_ = spread0 * (1.0 + (0.001 * i if kind == "widening" else 0.0))
                lobe = np.exp((np.cos(th_ - mean_) - 1.0) / spr_ ** 2)
                D = 0.95 * lobe / np.sum(lobe) + 0.05 / len(th_)
                seq.append([float(np.sum(D * np.cos(th_))), float(np.sum(D * np.sin(th_))), float(np.sum(D * np.cos(2 * th_))), float(np.sum(D * np.sin(2 * th_)))])
            seq = np.array(seq)
            try:
                Ds = est(seq[:, 0].copy(), seq[:, 1].copy(), seq[:, 2].copy(), seq[:, 3].copy(), d, method="mem2", solution_method="newton")
            except Exception as e:
                chk.violation("raise:sequence:%s" % type(e).__name__, "MEM2 / Newton raised on a slowly varying sequence", {"N": N, "kind": kind, "error": str(e)[:300]})
                continue
            evals += nseq
            for i in range(nseq):
                err = float(np.linalg.norm(moments_of(Ds[i], d) - seq[i]))
                if not err <= 0.0101:
                    chk.violation("fidelity:sequence:%s" % kind, "MEM2 / Newton does not reproduce the input moments of member %d of a slowly %s sequence (four-moment norm %.4f > 0.01)" % (i, kind, err),
                                  {"N": N, "member": i, "moments": seq[i].tolist(), "reconstructed": moments_of(Ds[i], d).tolist()})
                    break
    # a per-call solver configuration must not outlive the call: default -> loose override -> default again -----------------------------
    for N in Ns[:2]:
        d = np.linspace(0, 360, N, endpoint=False)
        mm = np.array([mixture(N) for _ in range(6)])
        args = [mm[:, i].copy() for i in range(4)]
        for sm in ("newton", "scipy"):
            try:
                first = est(*[a.copy() for a in args], d, method="mem2", solution_method=sm)
                est(*[a.copy() for a in args], d, method="mem2", solution_method=sm, solver_config={"atol": 0.1, "max_iter": 3})
                again = est(*[a.copy() for a in args], d, method="mem2", solution_method=sm)
            except Exception as e:
                chk.violation("raise:config-history:%s" % type(e).__name__, "estimator raised in a default / override / default sequence", {"N": N, "solver": sm, "error": str(e)[:300]})
                continue
            evals += 3
            if not np.allclose(first, again, rtol=1e-12, atol=1e-15):
                chk.violation("config-history:%s" % sm, "a default-configuration call returns something else after a call with a per-call solver_config",
                              {"N": N, "solver": sm, "max_abs_diff": float(np.max(np.abs(first - again))), "peak": float(np.max(first))})
    chk.set("evaluations", evals)
    chk.set("distinct_nontrivial", len(distinct))
    chk.assume("the specification (Symmetry.tla) supplies every group element with its bin permutation; closeness (0.01 in the four-moment norm for MEM2, "
               "0.05 for MEM on mixtures with spread >= 1.5 bins, 2x the solver tolerance between solvers) is a float comparison")
    return chk.finish(rule="von Mises mixtures (1-2 lobes + background, spread >= 1.5 bins) x N in %s x three variants; every / sampled group element applied "
                           "to the input moments; the 5 shipped hard cases with their orbits; distinct = (variant, N, case[, group element])" % Ns)


def replay(path):
    with open(path) as fp:
        print(fp.read()[:4000])
    return 0
