"""REG - not one of the listed properties: conformance of the module-level cache registry (filecache.py) with
spec/CacheRegistry.tla.  TLC model-checks the registry (no shared directory, entries = files, isolation between caches,
an erroneous call changes nothing), a design without the shared-directory test must be rejected, and simulated behaviours are
replayed on the real module with real directories.  Run as  ./check REG ; a mismatch is reported as a model conformance
difference (exit 1), it is not a violation of a listed property."""
import json
import os
import random
import shutil

from vlib import common

PID = "REG"


def run(tier):
    quick = tier == "quick"
    chk = common.Check(PID, "model_checking", tier)
    rng = random.Random(chk.seed + 77)
    work = common.scratch_dir("reg")
    home = os.path.join(work, "home")
    os.makedirs(home)
    os.environ["HOME"] = home                 # the default cache lives under ~ : keep it inside the scratch directory
    try:
        r = common.run_tlc("CacheRegistry", "CacheRegistry_mc.cfg", workers=8, timeout=1200)
        chk.tlc(r, "registry of named caches, 3 names x 3 directories x 2 keys: NoSharedDirectory, EntriesEqualFiles, Unregistered, Isolation, ErrorChangesNothing")
        if r.violated:
            chk.violation("model:%s" % r.violated, "CacheRegistry violates %s" % r.violated, {"tlc": r.out[-1500:]})
        elif not r.ok:
            chk.machinery("TLC failed on CacheRegistry_mc: %s" % r.error)
        rv = common.run_tlc("CacheRegistry", "CacheRegistry_noshare.cfg", workers=4, timeout=600)
        if rv.violated != "NoSharedDirectory":
            chk.machinery("non-vacuity: the design without the shared-directory test was not rejected (%s)" % (rv.violated or rv.error))
        chk.set("non_vacuity", "Design=noshare rejected by NoSharedDirectory")
        rg = common.run_tlc("CacheRegistry", "CacheRegistry_gen.cfg", workers=1, timeout=1200, simulate="num=%d" % (150 if quick else 3000), depth=11,
                            extra=["-seed", str(chk.seed % 100000)])
        behaviours = [json.loads(p)["hist"] for p in rg.prints]
        if not behaviours:
            chk.machinery("TLC simulation produced no behaviours: %s" % (rg.error or rg.out[-300:]))
        chk.set("behaviours_generated", len(behaviours))

        from ocean_science_utilities.filecache import filecache as fc
        from ocean_science_utilities.filecache import cache_object as co
        from ocean_science_utilities.filecache.remote_resources import RemoteResource

        class Mem(RemoteResource):
            URI_PREFIX = "mem://"

            def download(self):
                def _dl(uri, filepath):
                    with open(filepath, "wb") as fp:
                        fp.write(("content of %s\n" % uri).encode() * 20)
                    return True
                return _dl
        default_dir = os.path.abspath(os.path.expanduser(co.TEMPORARY_DIRECTORY))
        def replay_all(behaviours, report):
            replayed = calls = differences = 0
            for bi, hist in enumerate(behaviours):
                root = os.path.join(work, "b%d" % bi)
                dirs = {"p1": os.path.join(root, "p1"), "p2": os.path.join(root, "p2"), "pd": default_dir}
                shutil.rmtree(default_dir, ignore_errors=True)
                fc._ACTIVE_FILE_CACHES.clear()
                name_of = {"a": "cache-a", "b": "cache-b", "dflt": None}
                reg_name = {"a": "cache-a", "b": "cache-b", "dflt": fc.DEFAULT_CACHE_NAME}
                done = []
                for rec in hist:
                    done.append({k: v for k, v in rec.items() if k not in ("registered", "entries")})
                    n = rec["name"]
                    result = "ok"
                    try:
                        if rec["op"] == "create":
                            fc.create_cache(reg_name[n], cache_path=dirs[rec["dir"]], cache_size_GB=0.01, download_in_parallel=False, resources=[Mem()])
                        elif rec["op"] == "delete":
                            fc.delete_cache(reg_name[n])
                        elif rec["op"] == "get":
                            if n == "dflt":
                                # the automatically created default cache has no resource for the harness scheme: register it before use
                                # (get_cache creates the default cache exactly as filepaths would; a failure is the call's failure)
                                dc = fc.get_cache(None)
                                if not any(isinstance(x, Mem) for x in dc.resources):
                                    dc.resources.append(Mem())
                            out = fc.filepaths("mem://%s" % rec["key"], name_of[n])
                            if not (len(out) == 1 and os.path.exists(out[0])):
                                result = "nofile"
                        elif rec["op"] == "delete_files":
                            fc.delete_files("mem://%s" % rec["key"], name_of[n], error_if_not_in_cache=bool(rec["strict"]))
                    except ValueError:
                        result = "error"
                    except Exception as e:                     # any other exception type is a difference as well
                        result = "raised %s" % type(e).__name__
                    calls += 1
                    registered = sorted(k for k, v in reg_name.items() if fc.exists(v))
                    obs = {"result": result, "registered": registered}
                    exp = {"result": rec["result"], "registered": sorted(rec["registered"])}
                    if "entries" in rec and n in registered:
                        cache = fc.get_cache(reg_name[n])
                        files = sorted(k for k in ("k1", "k2") if os.path.exists(cache._cache_file_path("mem://%s" % k)))
                        ents = sorted(k for k in ("k1", "k2") if cache.in_cache("mem://%s" % k)[0]) if hasattr(cache, "in_cache") else files
                        obs["entries"], obs["files"] = ents, files
                        exp["entries"], exp["files"] = sorted(rec["entries"]), sorted(rec["entries"])
                    # isolation: files of the other registered caches
                    if obs != exp:
                        differences += 1
                        if report:
                            chk.violation("registry:%s" % rec["op"], "the cache registry behaves differently from CacheRegistry.tla at a %s call" % rec["op"],
                                          {"history": done, "expected": exp, "observed": obs})
                        break
                replayed += 1
                fc._ACTIVE_FILE_CACHES.clear()
                shutil.rmtree(root, ignore_errors=True)

            return replayed, calls, differences
        replayed, calls, _d = replay_all(behaviours, True)
        # binding demonstration: behaviours of the DOCUMENTED design (a strict delete of a key that is not cached is an error) must be rejected
        rb = common.run_tlc("CacheRegistry", "CacheRegistry_gen_strict.cfg", workers=1, timeout=600, simulate="num=60", depth=11, extra=["-seed", "11"])
        _r, _c, nd = replay_all([json.loads(p)["hist"] for p in rb.prints], False)
        chk.set("binding_demo", {"behaviours_of_the_documented_strict_design_rejected": nd})
        if nd == 0:
            chk.machinery("binding demonstration failed: behaviours of a different design were all accepted")
        chk.add("spec_traces_replayed", replayed)
        chk.set("calls_compared", calls)
        chk.assume("the default cache is given the harness resource on first use (it has none for the mem:// scheme); HOME points into the scratch directory")
        return chk.finish(rule="TLC -simulate behaviours of 9 calls over 3 names x 3 directories x 2 keys, each replayed on filecache.py with real directories; "
                               "compared after every call: result (ok / ValueError), registered names, entries and cache files of the named cache")
    finally:
        shutil.rmtree(work, ignore_errors=True)


def replay(path):
    with open(path) as fp:
        print(fp.read()[:4000])
    return 0
