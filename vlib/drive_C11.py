"""C11 - Wind inversion closes the source-term balance."""
import json
import math
import os
import random
import shutil

from vlib import common
from vlib import phys_common as pc

PID = "C11"
PANEL = [(0.1, 4.0), (0.15, 2.0), (0.1, 5.0), (0.12, 3.0), (0.2, 1.0), (0.08, 6.0), (0.1, 3.0)]
# short-fetch seas peaking above the default fmax of the first guess (0.5 Hz), and seas just above the onset of breaking
PANEL2 = [(0.57, 0.2), (0.6, 0.25), (0.65, 0.2), (0.7, 0.18), (0.2, 0.78), (0.2, 0.85), (0.6, 0.15)]


def run(tier):
    quick = tier == "quick"
    chk = common.Check(PID, "exploration", tier)
    rng = random.Random(chk.seed + 11)
    common.setup_numba_cache()
    import numpy as np
    from ocean_science_utilities.wavephysics.balance.factory import create_balance
    from ocean_science_utilities.wavephysics.windestimate import estimate_u10_from_source_terms
    work = common.scratch_dir("c11")
    evals, distinct = 0, set()
    try:
        pc.tlc_signsupport(chk)
        tr = pc.SupportTrace(os.path.join(work, "c11.ndjson"))
        f_lin = pc.freq()
        f_log = 0.04 * 1.085 ** np.arange(40)          # logarithmic grid as used by spectral wave models (0.04 .. 0.96 Hz)
        pairs = [("st4", "st4"), ("st4", "st6")]
        scan_u = [2.0 * i for i in range(1, 21)]        # 2, 4, ..., 40 m/s
        nsingle = [0]
        unjudged = [0]
        for (gname, dname) in pairs:
            bal = create_balance(gname, dname)
            for N in ([24] if quick else [16, 24, 36, 24, 16, 36, 24]):
                dirs = [j * 360.0 / N for j in range(N)]
                for bi_, B in enumerate([1, 4, -7, -107] if quick else [1, 2, 5, 8, -7, -107]):
                    f = f_log if (bi_ + len(gname + dname)) % 2 else f_lin
                    vds, depths, seas = [], [], []
                    panel = B < 0
                    panel_list = PANEL2 if B < -100 else PANEL
                    B = abs(B) % 100
                    for b in range(B):
                        fp = rng.uniform(0.1, 0.25)
                        # steep enough for non-zero dissipation: Hs ~ 0.2..0.3 * g/(2 pi fp)^2 / ... (fully developed and younger seas)
                        hs = rng.uniform(0.8, 1.6) * 0.24 * 9.81 / (2 * math.pi * fp * 1.14) ** 2
                        if panel:
                            # fixed panel of mature seas whose balance closes at light winds (2..5 m/s for st6), far below the first
                            # guess from the equilibrium range: the solver has to travel through the whole bracket search
                            fp, hs = panel_list[b]
                            f = f_lin
                        sea_ = (fp, hs, 40.0 if panel else rng.uniform(0, 360), 30.0 if panel else rng.uniform(25, 45))
                        seas.append(list(sea_))
                        vds.append(pc.sea(f, dirs, *sea_))
                        depths.append(np.inf if panel else rng.choice([np.inf, np.inf, 40.0]))
                    # one member without dissipation (a very low swell) and the empty spectrum
                    if B >= 4 and not panel:
                        vds[-1] = pc.sea(f, dirs, 0.07, 0.05, 100.0, 15.0)
                        vds[-2] = np.zeros((len(f), N))
                        # the calm members in every position: each directly BEFORE a wind sea, and at the end
                        order = [B - 2, 0, B - 1] + list(range(1, B - 2))
                        if (len(gname + dname) + N) % 2:
                            order = order[::-1]
                        seas[B - 1], seas[B - 2] = [0.07, 0.05, 100.0, 15.0], "empty"
                        vds, depths, seas = [vds[i] for i in order], [depths[i] for i in order], [seas[i] for i in order]
                    if panel:
                        # light-wind seas directly before seas that need a strong wind
                        vds = vds + [pc.sea(f, dirs, 0.22, 2.0, 40.0, 30.0), pc.sea(f, dirs, 0.18, 3.2, 40.0, 30.0)]
                        depths = depths + [np.inf, np.inf]
                        seas = seas + [[0.22, 2.0, 40.0, 30.0], [0.18, 3.2, 40.0, 30.0]]
                        B = len(vds)
                    spec = pc.spectrum(f, dirs, vds, depths)
                    with_rate = (bi_ % 2 == 1) if quick else rng.random() < 0.5
                    # rate of change of a turning and growing sea: (spectrum rotated by two bins - spectrum) / 1 h + growth
                    # (two bins in six hours: with a turn of two bins per hour the supplied rate of change is as large as the dissipation
                    # and the balance - discontinuous wherever a bin becomes actively forced - has jumps the solver cannot always handle:
                    # known finding, exercised by the fixed probe below)
                    rates = [(np.roll(np.asarray(v), 2, axis=1) - np.asarray(v)) / (6 * 3600.0) + 1e-5 * np.asarray(v) for v in vds]
                    if not panel and not with_rate and (bi_ == 0 or rng.random() < 0.5):
                        # a sea abating in place (no bin grows): dE/dt = -E / 24 h
                        with_rate = True
                        rates = [-np.asarray(v) / (24 * 3600.0) for v in vds]
                    dEdt = pc.spectrum(f, dirs, rates, depths) if with_rate else None
                    ctx = {"pair": "%s/%s" % (gname, dname), "N": N, "batch": B, "rate_of_change": with_rate}
                    # the balance the estimate has to close is evaluated with NEW source-term objects: the estimate of the long-lived
                    # pair must not depend on what that pair was used for before (grids of the same shape, other spectra)
                    ref = create_balance(gname, dname)
                    try:
                        res = estimate_u10_from_source_terms(spec, bal, time_derivative_spectrum=dEdt)
                        u10, wdir = res["u10"].values, res["direction"].values
                        dbulk = ref.dissipation.bulk_rate(spec).values
                        ddir = ref.dissipation.mean_direction_degrees(spec).values
                    except Exception as e:
                        chk.violation("raise:%s" % type(e).__name__, "wind inversion raised %s" % type(e).__name__, dict(ctx, error=str(e)[:300]))
                        continue
                    evals += B
                    df, dd = spec.frequency_step.values, spec.direction_step.values
                    dvals = None if dEdt is None else dEdt.variance_density.values

                    def F(u_vec):
                        """the balance the inversion has to close, from the code's own bulk rates, for all points at once"""
                        g = ref.generation.rate(spec, pc.da(u_vec), pc.da(ddir)).values
                        out = np.sum(g * df[None, :, None] * dd[None, None, :], axis=(1, 2)) + dbulk
                        if dvals is not None:
                            out = out - np.sum(np.where(g > 0, dvals, 0.0) * df[None, :, None] * dd[None, None, :], axis=(1, 2))
                        return out
                    scans = np.array([F(np.full(B, u)) for u in scan_u])          # (20, B)
                    evals += len(scan_u) * B
                    for b in range(B):
                        cb = dict(ctx, point=b, u10=(float(u10[b]) if u10[b] == u10[b] else "nan"), bulk_dissipation=float(dbulk[b]), sea=seas[b], depth=str(depths[b]),
                                  rate=("none" if dEdt is None else "abating" if float(np.max(rates[b])) <= 0 else "turning"),
                                  frequency_grid=("log" if f is f_log else "lin"))
                        distinct.add((gname, dname, N, B, b, with_rate, round(float(dbulk[b]), 12)))
                        if dbulk[b] == 0.0:
                            if u10[b] != 0.0:
                                chk.violation("zero-dissipation", "integrated dissipation is zero but the estimated U10 is not zero", cb)
                            continue
                        if not (math.isnan(u10[b]) or u10[b] > 0):
                            chk.violation("sign", "estimated U10 is neither missing nor positive", cb)
                            continue
                        if abs((wdir[b] - ddir[b] + 180) % 360 - 180) > 1e-9:
                            chk.violation("direction", "without direction iteration the direction is not the dissipation-weighted mean wave direction",
                                          dict(cb, direction=float(wdir[b]), dissipation_direction=float(ddir[b])))
                        # scan points at which the balance is defined (the roughness iteration may fail for very light winds)
                        pts = [(u, v) for u, v in zip(scan_u, scans[:, b]) if math.isfinite(v)]
                        sg = [1 if v > 0 else -1 if v < 0 else 0 for _u, v in pts]
                        if len(sg) >= 2:
                            if math.isnan(u10[b]):
                                cell = 0
                            else:
                                def cell_of(x):
                                    c_ = sum(1 for u, _v in pts if u <= x)          # x in [pts[c_-1], pts[c_])
                                    return c_ if 1 <= c_ <= len(sg) - 1 else len(sg)
                                cell = cell_of(u10[b])
                                # a root within the closure tolerance (0.03 m/s) of a scan point belongs to both neighbouring cells
                                changes = [i + 1 for i in range(len(sg) - 1) if sg[i] * sg[i + 1] < 0]
                                for alt in (cell_of(u10[b] - 0.03), cell_of(u10[b] + 0.03)):
                                    if len(changes) == 1 and alt == changes[0]:
                                        cell = alt
                            tr.add({"kind": "root", "what": "u10 %s/%s N=%d B=%d point=%d" % (gname, dname, N, B, b), "sg": sg, "res": cell, "finite": 1, "ctx": cb,
                                    "scan": [[u, (v if v == v else "nan")] for u, v in zip(scan_u, scans[:, b].tolist())]})
                            if sum(1 for i in range(len(sg) - 1) if sg[i] * sg[i + 1] < 0) == 1 and 0 not in sg:
                                nsingle[0] += 1
                        if not math.isnan(u10[b]):
                            lo, hi = F(np.where(np.arange(B) == b, u10[b] - 0.03, 10.0))[b], F(np.where(np.arange(B) == b, u10[b] + 0.03, 10.0))[b]
                            mid = F(np.where(np.arange(B) == b, u10[b], 10.0))[b]
                            evals += 3
                            # closure to within the solver's step tolerance (0.01 m/s): the balance changes sign within +-0.03 m/s, or its
                            # value at the estimate is what a step of 0.015 m/s along the local slope explains (the balance may be
                            # undefined on one side: the roughness iteration has no solution for very light winds)
                            slopes = [abs(v - mid) / 0.03 for v in (lo, hi) if math.isfinite(v)]
                            if not math.isfinite(mid):
                                unjudged[0] += 1      # the reference evaluation of the balance is undefined at the estimate itself: no verdict
                            elif not (lo * hi <= 0 or abs(mid) <= 2e-3 * abs(dbulk[b]) or (slopes and abs(mid) <= 0.015 * max(slopes))):
                                chk.violation("closure:%s:N=%d:%s:rate=%s:sea=%s:depth=%s" % (cb["pair"], N, cb["frequency_grid"], cb["rate"],
                                                                                            (",".join("%.3g" % x for x in seas[b][:3]) if isinstance(seas[b], list) else seas[b]), depths[b]),
                                              "input + dissipation does not vanish at the estimated U10 (no sign change within +-0.03 m/s)",
                                              dict(cb, F_minus=float(lo), F_at=float(mid), F_plus=float(hi)))
                    # batch independence
                    if B > 1:
                        i = rng.randrange(B)
                        s1 = pc.spectrum(f, dirs, [vds[i]], [depths[i]])
                        d1 = None if dEdt is None else pc.spectrum(f, dirs, [rates[i]], [depths[i]])
                        r1 = estimate_u10_from_source_terms(s1, bal, time_derivative_spectrum=d1)
                        evals += 1
                        if not np.allclose(r1["u10"].values[0], u10[i], rtol=1e-9, equal_nan=True):
                            chk.violation("batch-independence", "a point of a batch gets a different wind estimate than alone",
                                          dict(ctx, point=i, alone=float(r1["u10"].values[0]), in_batch=float(u10[i])))
        # fixed probe of the known finding (known_findings.json): a sea turning by two direction bins (45 degrees) per hour on a 16-bin grid.
        # The Newton step is computed from a finite-difference derivative taken across a jump of the balance; the step is tiny and the solver
        # reports convergence away from the root.  Kept so that the finding stays reproduced and its disappearance is noticed.
        try:
            balp = create_balance("st4", "st4")
            dirs16 = [j * 22.5 for j in range(16)]
            seap = (0.18792838158278577, 1.5963268201624945, 358.79323557289274, 39.976311918212915)
            vdp = pc.sea(f_log, dirs16, *seap)
            specp = pc.spectrum(f_log, dirs16, [vdp], [40.0])
            ratep = (np.roll(np.asarray(vdp), 2, axis=1) - np.asarray(vdp)) / 3600.0 + 1e-5 * np.asarray(vdp)
            up = float(estimate_u10_from_source_terms(specp, balp, time_derivative_spectrum=pc.spectrum(f_log, dirs16, [ratep], [40.0]))["u10"].values[0])
            dbp = float(balp.dissipation.bulk_rate(specp).values[0])
            ddp = balp.dissipation.mean_direction_degrees(specp).values
            dfp, ddd = specp.frequency_step.values, specp.direction_step.values

            def Fp(x):
                g = balp.generation.rate(specp, pc.da([x]), pc.da(ddp)).values
                return float(np.sum(g * dfp[None, :, None] * ddd[None, None, :]) + dbp - np.sum(np.where(g > 0, ratep[None], 0.0) * dfp[None, :, None] * ddd[None, None, :]))
            evals += 4
            if not math.isnan(up):
                lo, mid, hi = Fp(up - 0.03), Fp(up), Fp(up + 0.03)
                if not (lo * hi <= 0 or abs(mid) <= 2e-3 * abs(dbp)):
                    chk.violation("closure:known-probe:st4/st4:N=16:log:turning-two-bins-per-hour:depth=40", "input + dissipation - rate of change does not vanish at the estimated U10",
                                  {"u10": up, "F_minus": lo, "F_at": mid, "F_plus": hi, "bulk_dissipation": dbp})
        except Exception as e:
            chk.violation("raise:known-probe:%s" % type(e).__name__, "the fixed probe raised", {"error": str(e)[:300]})
        tr.validate(chk, "C11")
        chk.set("scans_with_a_single_sign_change", nsingle[0])
        chk.set("estimates_where_the_reference_balance_is_undefined", unjudged[0])
        if nsingle[0] == 0:
            chk.machinery("no scan of the balance showed a single sign change: the non-degeneracy clause was not exercised")
        # histories of one long-lived balance (BalanceSession.tla behaviours): evaluations interleaved with parameter updates
        from vlib import balance_session as bs
        behs = bs.tlc_behaviours(chk, "c11", quick, chk.seed)
        nb_ = 0
        for pair_ in (("st4", "st4"), ("st4", "st6")):
            nb_ += bs.replay(chk, behs, pair_, "C11")
        chk.add("spec_traces_replayed", len(behs))
        chk.set("balance_session_evaluations_compared", nb_)
        evals += nb_
        chk.set("evaluations", evals)
        chk.set("distinct_nontrivial", len(distinct))
        chk.assume("the specification decides: zero dissipation => zero wind, and - from the sign vector of the balance scanned on u = 2,4,...,40 m/s with the "
                   "code's own bulk rates - the cell that must contain a finite result; closure (sign change within +-0.03 m/s) is a float comparison")
        return chk.finish(rule="JONSWAP wind seas steep enough to dissipate (plus a low swell and the empty spectrum), all directions, finite / infinite depth, "
                               "batches of 1..8, st4/st4 and st4/st6, with and without a rate-of-change spectrum; distinct = distinct spectra")
    finally:
        shutil.rmtree(work, ignore_errors=True)


def replay(path):
    from vlib import phys_common
    return phys_common.replay_record(path, "SignSupportTrace", "SignSupportTrace.cfg")
