"""C13 - Linear interpolation: exact at nodes, bounded, no extrapolation, NaN-aware."""
import json
import math
import os
import random
import shutil
from fractions import Fraction

from vlib import common
from vlib import interp_common as ic

PID = "C13"


def to_rational(got, maxden):
    if isinstance(got, float) and math.isnan(got):
        return ["nan"]
    fr = Fraction(float(got)).limit_denominator(maxden)
    if abs(float(fr) - float(got)) > 1e-9 * max(1.0, abs(float(got))):
        return ["val", int(round(float(got) * 1e6)), 1000003]   # not a rational of the expected kind: will be rejected
    return ["val", fr.numerator, fr.denominator]


def run(tier):
    quick = tier == "quick"
    chk = common.Check(PID, "model_checking", tier)
    rng = random.Random(chk.seed + 13)
    common.setup_numba_cache()
    import numpy as np
    import xarray
    from ocean_science_utilities.interpolate.dataset import interpolate_dataset_along_axis, interpolate_dataset_grid
    from ocean_science_utilities.wavespectra.spectrum import create_1d_spectrum, create_2d_spectrum
    work = common.scratch_dir("c13")
    evals, nontrivial = 0, 0
    try:
        cases = ic.tlc_cases(chk, "Interp_lin_quick.cfg" if quick else "Interp_lin_thorough.cfg",
                             "all grids of 2..%d nodes on the lattice (ascending/descending, non-uniform), all missing masks, "
                             "linear + nearest: node exactness, boundedness, no extrapolation, affine exactness, direction "
                             "independence" % (4 if quick else 5))
        if not cases:
            chk.machinery("TLC emitted no interpolation cases")
        idx = ic.index_cases(cases)
        chk.set("emitted_cases", len(cases))
        if cases:
            chk.sample({"emitted_case": {k: cases[len(cases) // 2][k] for k in ("xp", "nan", "mode", "f", "x", "exp")}})

        # 1. spec -> code: every emitted case through interpolate_dataset_along_axis -------------------
        for ci, c in enumerate(cases):
            perm = None
            if ci % 2:
                # targets in no particular order (a track, merged band lists): the order of the targets carries no meaning
                perm = list(range(len(c["x"])))
                rng.shuffle(perm)
                c = dict(c, x=[c["x"][i] for i in perm], exp=[c["exp"][i] for i in perm])
            rank = rng.choice([1, 1, 2, 3, 4])
            pos = rng.randrange(rank)
            kind = rng.choice(["float", "scaled", "int", "time", "time_s", "time_ms"])
            name = "time" if kind.startswith("time") else "x"
            partial = rng.random() < 0.25
            ds, tx, fac, dims, pidx = ic.embed(c, rank, pos, kind, name, rng, partial_nan=partial)
            nn = c["mode"] == "nearest"
            ctx = {"case": {k: c[k] for k in ("xp", "nan", "mode", "f")}, "rank": rank, "axis": pos, "coordinate": kind,
                   "partial_nan_at": pidx}
            try:
                out = interpolate_dataset_along_axis(tx, ds, coordinate_name=name, nearest_neighbour=nn)
            except Exception as e:
                chk.violation("raise:along_axis:%s" % type(e).__name__, "interpolate_dataset_along_axis raised %s" % type(e).__name__,
                              dict(ctx, error=str(e)[:300]))
                continue
            evals += 1
            ov = out["v"]
            if list(ov.dims) != dims or ov.shape[pos] != len(tx):
                chk.violation("layout", "output dims / axis position changed", dict(ctx, dims=list(ov.dims), shape=list(ov.shape)))
                continue
            if not out["passive"].identical(ds["passive"]):
                chk.violation("passive", "a variable without the coordinate did not pass through unchanged", ctx)
            vals = ov.values
            clean = idx.get((tuple(c["xp"]), c["mode"], tuple(0 for _ in c["nan"])))
            if clean is not None and perm is not None:
                clean = dict(clean, exp=[clean["exp"][i] for i in perm])
            bad = None
            for o, (s, cc) in fac.items():
                for k in range(len(tx)):
                    ii = list(o)
                    ii.insert(pos, k)
                    got = float(vals[tuple(ii)])
                    exp = c["exp"][k]
                    ok = ic.accepts(exp, got, s, cc)
                    if not ok and pidx is not None and o != pidx and clean is not None:
                        # element-wise reading of a partially missing node: as if nothing was missing here
                        ok = ic.accepts(clean["exp"][k], got, s, cc)
                    if not ok:
                        bad = {"target": float(c["x"][k]) / 2, "other_index": list(o), "got": got,
                               "accepted": exp, "factor": [s, cc]}
                        break
                if bad:
                    break
            if bad:
                chk.violation("value:%s:%s" % (c["mode"], "".join(map(str, c["nan"]))),
                              "interpolated value differs from the reference (%s)" % c["mode"], dict(ctx, **bad))
            if any(c["nan"]) and any(o[0] == "val" for e in c["exp"] for o in e):
                nontrivial += 1
            # scalar target
            if ci % 7 == 0:
                k = rng.randrange(len(tx))
                try:
                    o1 = interpolate_dataset_along_axis(tx[k], ds, coordinate_name=name, nearest_neighbour=nn)["v"].values
                    evals += 1
                    first = tuple([0] * pos + [0] + [0] * (rank - pos - 1))
                    s, cc = fac[tuple([0] * (rank - 1))]
                    if not ic.accepts(c["exp"][k], float(o1[first]), s, cc) and pidx is None:
                        chk.violation("scalar-target", "scalar target gives a different value", dict(ctx, target_index=k, got=float(o1[first])))
                except Exception as e:
                    chk.violation("raise:scalar:%s" % type(e).__name__, "scalar target raised", dict(ctx, error=str(e)[:200]))

        # 2. multi-coordinate (grid) interpolation = composition per coordinate ----------------------
        sub = [c for c in cases if c["mode"] == "linear"]
        for c in rng.sample(sub, min(len(sub), 150 if quick else 1500)):
            n = len(c["xp"])
            yp = np.array([0.0, 1.0, 2.0])
            A = 2.0 + yp
            data = np.array([[np.nan if c["nan"][j] else c["f"][j] * A[m] for m in range(3)] for j in range(n)])
            ds = xarray.Dataset()
            ds["v"] = xarray.DataArray(data, dims=["x", "y"], coords={"x": np.array(c["xp"]) * 0.5, "y": yp})
            ty = np.array([0.0, 0.5, 2.0])
            allk = list(range(len(c["x"])))
            finite_k = [k for k in allk if all(o[0] == "val" for o in c["exp"][k])]
            for ks in (finite_k, allk):
                if not ks:
                    continue
                tx = np.array([c["x"][k] for k in ks]) * 0.5
                some_missing = any(any(o[0] == "nan" for o in c["exp"][k]) for k in ks)
                stop = False
                for order in (("x", "y"), ("y", "x")):
                    coords = {order[0]: tx if order[0] == "x" else ty, order[1]: tx if order[1] == "x" else ty}
                    try:
                        out = interpolate_dataset_grid(coords, ds)["v"]
                    except Exception as e:
                        chk.violation("raise:grid:%s" % type(e).__name__, "interpolate_dataset_grid raised", {"xp": c["xp"], "error": str(e)[:200]})
                        break
                    evals += 1
                    vals = out.transpose("x", "y").values
                    for kk, k in enumerate(ks):
                        for m in range(3):
                            got = float(vals[kk, m])
                            if not ic.accepts(c["exp"][k], got, 2.0 + ty[m], 0.0):
                                poisoned = (some_missing or any(c["nan"])) and math.isnan(got)
                                chk.violation("grid-value:poisoned-by-missing-target" if poisoned else "grid-value",
                                              "two-coordinate interpolation is not the composition of the 1-D operator" +
                                              (": a target inside the grid is missing because another target is missing" if poisoned else ""),
                                              {"xp": c["xp"], "nan": c["nan"], "order": list(order), "x_targets": [float(v) for v in tx],
                                               "x": float(tx[kk]), "y": float(ty[m]), "got": got, "accepted_times": [c["exp"][k], 2.0 + ty[m]]})
                                stop = True
                                break
                        if stop:
                            break
                    if stop:
                        break

        # 2b. multi-coordinate interpolation at points (a track through gridded data): trilinear = composition per coordinate; the keys of
        # the `points` mapping come in every order (the order of a mapping carries no meaning); nothing is missing in these cases
        from ocean_science_utilities.interpolate.dataset import interpolate_at_points
        clean = [c for c in sub if not any(c["nan"])]
        for c in rng.sample(clean, min(len(clean), 60 if quick else 600)):
            xg = np.array(c["xp"], dtype="float64") * 0.5
            lat = np.array([-10.0, 0.0, 10.0, 20.0, 30.0])[:max(len(xg), 2)]
            base = np.datetime64("2022-05-01T00:00:00", "s")
            tim = np.array([base + np.timedelta64(3600 * i, "s") for i in range(3)]).astype("datetime64[ns]")
            F = np.array([float(v) for v in c["f"]])
            data = F[None, None, :] + 10.0 * lat[None, :, None] + 100.0 * np.arange(3)[:, None, None]
            ds = xarray.Dataset()
            ds["u"] = xarray.DataArray(data, dims=["time", "latitude", "x"], coords={"time": tim, "latitude": lat, "x": xg})
            npts = len(c["x"])
            plat = np.array([rng.choice([-10.0, -2.5, 0.5 * float(lat[0] + lat[-1]), float(lat[-1])]) for _ in range(npts)])
            pt = np.array([rng.choice([0.0, 0.25, 1.5, 2.0]) for _ in range(npts)])
            ptime = np.array([base + np.timedelta64(int(3600 * v), "s") for v in pt]).astype("datetime64[ns]")
            vals_ = {"time": ptime, "latitude": plat, "x": np.array(c["x"], dtype="float64") * 0.5}
            order = ["time", "latitude", "x"]
            rng.shuffle(order)
            ctx = {"xp": c["xp"], "key_order": order}
            try:
                out = interpolate_at_points(ds, {k: vals_[k] for k in order}, independent_variable="time")["u"].values
            except Exception as e:
                chk.violation("raise:at_points:%s" % type(e).__name__, "interpolate_at_points raised %s" % type(e).__name__, dict(ctx, error=str(e)[:300]))
                continue
            evals += 1
            for k in range(npts):
                if not ic.accepts(c["exp"][k], float(out[k]), 1.0, 10.0 * plat[k] + 100.0 * pt[k]):
                    chk.violation("at_points", "gridded data interpolated at a point is not the composition of the 1-D operator per coordinate",
                                  dict(ctx, x=float(c["x"][k]) / 2, lat=float(plat[k]), t=float(pt[k]), got=float(out[k]), accepted=c["exp"][k]))
                    break

        # 3. spectra: frequency and time interpolation (1D: energy-weighted moments) --------------------
        asc = [c for c in cases if c["xp"][0] < c["xp"][-1] and c["xp"][0] >= 0]
        for c in rng.sample(asc, min(len(asc), 120 if quick else 1200)):
            n = len(c["xp"])
            f = np.array(c["xp"]) * 0.5 + 0.5
            tf = np.array(c["x"]) * 0.5 + 0.5
            tf_ok = tf > -1e9
            E = np.array([np.nan if c["nan"][j] else float(c["f"][j]) for j in range(n)])
            E2 = np.stack([E, 3.0 * E])
            b1 = np.array([(j + 1) / 8.0 for j in range(n)])
            ones = np.ones((2, n))
            method = c["mode"]
            ctx = {"xp": c["xp"], "nan": c["nan"], "method": method}
            try:
                spec = create_1d_spectrum(f, E2, np.array([0, 3600]), np.array([1.0, np.nan]), np.array([np.nan, 6.0]),
                                          a1=0.5 * ones, b1=ones * b1, a2=-0.25 * ones, b2=0.125 * ones, depth=np.array([np.nan, 20.0]))
                before = spec.dataset.copy(deep=True)
                out = spec.interpolate_frequency(tf, method=method)
                evals += 1
                if not spec.dataset.identical(before):
                    chk.violation("spectrum-mutated", "interpolate_frequency changed its operand", ctx)
                for nm in ("depth", "latitude", "longitude", "time"):
                    a_, b_ = np.asarray(spec.dataset[nm].values), np.asarray(out.dataset[nm].values)
                    same = np.array_equal(a_, b_) if a_.dtype.kind == "M" else np.array_equal(a_.astype("float64"), b_.astype("float64"), equal_nan=True)
                    if not same:
                        chk.violation("spectrum-passive:%s" % nm, "interpolating a spectrum in frequency changed %s (a variable without that coordinate)" % nm,
                                      dict(ctx, before=str(a_), after=str(b_)))
                Eo = out.variance_density.values
                a1o, b1o = out.a1.values, out.b1.values
                for k in range(len(tf)):
                    for t, sc in ((0, 1.0), (1, 3.0)):
                        if not ic.accepts(c["exp"][k], float(Eo[t, k]), sc, 0.0, nan_value=0.0):
                            chk.violation("spectrum1d-E:%s" % method, "1D spectrum: interpolated variance density differs from the reference",
                                          dict(ctx, f=float(tf[k]), got=float(Eo[t, k]), accepted=c["exp"][k], scale=sc))
                            raise StopIteration
                    if len(c["exp"][k]) == 1 and len(c["exp2"][k]) == 1:
                        oe, o2 = c["exp"][k][0], c["exp2"][k][0]
                        if oe[0] == "nan":
                            ok = a1o[0, k] == 0.0 and b1o[0, k] == 0.0      # missing -> extrapolation value
                        else:
                            eb1 = (o2[1] / o2[2]) / 8.0 / (oe[1] / oe[2])
                            ok = abs(a1o[0, k] - 0.5) < 1e-10 and abs(b1o[0, k] - eb1) < 1e-10
                        if not ok:
                            chk.violation("spectrum1d-moments:%s" % method, "1D spectrum: moments are not interpolated energy-weighted",
                                          dict(ctx, f=float(tf[k]), a1=float(a1o[0, k]), b1=float(b1o[0, k]), exp=c["exp"][k], exp2=c["exp2"][k]))
                            raise StopIteration
                # 2D spectrum in frequency
                d = np.array([0.0, 90.0, 180.0, 270.0])
                vd = E[:, None] * (1.0 + np.arange(4))[None, :]
                s2 = create_2d_spectrum(f, d, vd[None, :, :], np.array([0]), np.array([np.nan]), np.array([5.0]), depth=np.array([np.nan]))
                o2 = s2.interpolate_frequency(tf)
                if not (np.isnan(o2.dataset["depth"].values).all() and np.isnan(o2.dataset["latitude"].values).all() and float(o2.dataset["longitude"].values[0]) == 5.0):
                    chk.violation("spectrum2d-passive", "interpolating a 2D spectrum in frequency changed depth / position", ctx)
                o2d = o2.variance_density.values
                evals += 1
                if method == "linear":
                    for k in range(len(tf)):
                        for m in range(4):
                            if not ic.accepts(c["exp"][k], float(o2d[0, k, m]), 1.0 + m, 0.0, nan_value=0.0):
                                chk.violation("spectrum2d-E", "2D spectrum: interpolated variance density differs from the reference",
                                              dict(ctx, f=float(tf[k]), dirbin=m, got=float(o2d[0, k, m]), accepted=c["exp"][k]))
                                raise StopIteration
                # time interpolation of a 1D spectrum (no missing spectra in time: E constant per time scaled by F(j))
                base = np.datetime64("2022-01-01T00:00:00", "s")
                tt = np.array([base + np.timedelta64(1800 * int(v), "s") for v in c["xp"]])
                tq = np.array([base + np.timedelta64(1800 * int(v), "s") for v in c["x"]])
                Et = np.array([[np.nan if c["nan"][j] else c["f"][j] * (1.0 + m) for m in range(3)] for j in range(n)])
                st = create_1d_spectrum(np.array([0.1, 0.2, 0.3]), Et, tt, np.zeros(n), np.zeros(n),
                                        a1=np.full((n, 3), 0.5), b1=np.full((n, 3), 0.25), a2=np.zeros((n, 3)), b2=np.zeros((n, 3)),
                                        depth=np.full(n, 10.0))
                ot = st.interpolate({"time": tq}).variance_density.values
                evals += 1
                if method == "linear":
                    for k in range(len(tq)):
                        for m in range(3):
                            if not ic.accepts(c["exp"][k], float(ot[k, m]), 1.0 + m, 0.0, nan_value=0.0):
                                chk.violation("spectrum-time", "spectrum interpolated in time differs from the reference",
                                              dict(ctx, target=str(tq[k]), got=float(ot[k, m]), accepted=c["exp"][k]))
                                raise StopIteration
            except StopIteration:
                pass
            except Exception as e:
                chk.violation("raise:spectrum:%s" % type(e).__name__, "spectrum interpolation raised %s" % type(e).__name__,
                              dict(ctx, error=str(e)[:300]))

        # 4. code -> spec: random non-uniform grids of 2..40 nodes, validated by TLC ---------------------------
        path = os.path.join(work, "c13.ndjson")
        recs = {}
        with open(path, "w") as fp:
            for j in range(250 if quick else 6000):
                n = rng.randint(2, 40)
                pts = sorted(rng.sample(range(0, 400), n))
                if rng.random() < 0.5:
                    pts = pts[::-1]
                nan = [1 if rng.random() < 0.15 else 0 for _ in pts]
                fv = [rng.randint(-20, 20) for _ in pts]
                mode = rng.choice(["linear", "linear", "nearest"])
                xs = [rng.randint(-10, 410) for _ in range(12)] + rng.sample(pts, min(3, n)) + [pts[0], pts[-1]]
                ds = xarray.Dataset()
                ds["v"] = xarray.DataArray(np.array([np.nan if m else float(v) for v, m in zip(fv, nan)]), dims=["x"],
                                           coords={"x": np.array(pts, dtype="float64") * 0.25})
                out = interpolate_dataset_along_axis(np.array(xs, dtype="float64") * 0.25, ds, coordinate_name="x",
                                                     nearest_neighbour=(mode == "nearest"))["v"].values
                evals += 1
                got = [to_rational(float(v), 400) for v in out]
                rec = {"id": j, "xp": pts, "nan": nan, "f": fv, "mode": mode, "x": xs, "got": got}
                recs[j] = rec
                fp.write(json.dumps(rec) + "\n")
                if sum(nan) and any(g[0] == "val" for g in got):
                    nontrivial += 1
        rt = common.run_tlc("InterpTrace", "InterpTrace_P0.cfg", workers=1, timeout=3600, env={"TRACE_FILE": path})
        done = None
        for p in rt.prints:
            d = json.loads(p)
            if d.get("done"):
                done = d
                continue
            rec = recs[d["id"]]
            k = d["bad"][0]
            chk.violation("trace:%s" % rec["mode"], "recorded interpolation rejected by the reference at target %s" % rec["x"][k - 1],
                          {"record": rec, "bad_targets": d["bad"], "expected": d["expect"][k - 1]})
        if done is None or done["consumed"] != len(recs):
            chk.machinery("InterpTrace did not consume the trace: %s" % (rt.error or rt.out[-600:]))
        chk.set("traces_validated_against_impl", len(recs))
        # binding demonstration
        demo = os.path.join(work, "demo.ndjson")
        with open(demo, "w") as fp:
            fp.write(json.dumps({"id": 0, "xp": [0, 4], "nan": [0, 0], "f": [1, 5], "mode": "linear", "x": [1],
                                 "got": [["val", 3, 1]]}) + "\n")
        rd = common.run_tlc("InterpTrace", "InterpTrace_P0.cfg", workers=1, timeout=300, env={"TRACE_FILE": demo})
        okdemo = any('"bad"' in p for p in rd.prints)
        chk.set("binding_demo", {"corrupted_rejected": okdemo})
        if not okdemo:
            chk.machinery("binding demonstration failed")

        chk.set("evaluations", evals)
        chk.set("distinct_nontrivial", nontrivial)
        chk.assume("for a node that is missing only in part of the passive dimensions both readings (whole node / element) are accepted")
        chk.assume("float results compared with 1e-10 relative tolerance to the exact rational reference")
        return chk.finish(rule="TLC enumerates every grid/mask/mode on the lattice; each emitted case is embedded at a random axis of "
                               "a rank 1..4 variable with float / scaled / datetime64 coordinates; non-trivial = cases with a "
                               "missing node and at least one finite result")
    finally:
        shutil.rmtree(work, ignore_errors=True)


def replay(path):
    with open(path) as fp:
        print(fp.read()[:4000])
    return 0
