"""C05 - Directional estimators return valid distributions and conserve energy."""
import json
import math
import random

from vlib import common

PID = "C05"
VARIANTS = [("mem", {}), ("mem2", {"solution_method": "newton"}), ("mem2", {"solution_method": "scipy"}),
            ("mem2", {"solution_method": "approximate"})]


ITERATES_IN_KERNEL = "mem2:newton"          # the one variant whose iteration runs inside a numba kernel compiled per array layout


def vname(v):
    return v[0] + ("" if not v[1] else ":" + v[1]["solution_method"])


def lattice(chk):
    r = common.run_tlc("MCMomentLattice", "MomentLattice.cfg", workers=1, timeout=900)
    chk.tlc(r, "rational moment lattice (denominator 20): membership of the open unit disc decided exactly, realisability classified")
    if r.violated or not r.ok:
        chk.machinery("TLC failed on MomentLattice: %s" % (r.error or r.violated))
    return [json.loads(p) for p in r.prints]


def batch_maps(chk):
    r = common.run_tlc("Batch", "Batch.cfg", workers=1, timeout=900)
    chk.tlc(r, "batch index maps for shapes up to (3,2,4): bijective, equal to the two-step reshape, split-compatible")
    if r.violated or not r.ok:
        chk.machinery("TLC failed on Batch: %s" % (r.error or r.violated))
    return [json.loads(p) for p in r.prints]


def run(tier):
    quick = tier == "quick"
    chk = common.Check(PID, "exploration", tier)
    rng = random.Random(chk.seed + 5)
    common.setup_numba_cache()
    import numpy as np
    from ocean_science_utilities.wavespectra.estimators.estimate import estimate_directional_distribution
    from ocean_science_utilities.wavespectra.spectrum import create_1d_spectrum
    evals, distinct = 0, set()
    quads = lattice(chk)
    maps = batch_maps(chk)
    chk.set("lattice_quadruples", len(quads))
    chk.sample({"quadruple": quads[len(quads) // 2] if quads else None, "batch_map": maps[-1] if maps else None})
    M = np.array([[x / q["q"] for x in q["m"]] for q in quads])
    # buoy-like noisy moments and narrow / bimodal realisable ones
    extra = []
    for _ in range(100 if quick else 1500):
        kind = rng.random()
        if kind < 0.5:
            r1, ph = rng.uniform(0, 0.995), rng.uniform(0, 2 * math.pi)
            extra.append([r1 * math.cos(ph), r1 * math.sin(ph), rng.uniform(-1, 1), rng.uniform(-1, 1)])
        else:
            th = np.linspace(0, 2 * np.pi, 3600, endpoint=False)
            m1, m2 = rng.uniform(0, 2 * np.pi), rng.uniform(0, 2 * np.pi)
            k1, k2, w = rng.uniform(0.3, 400), rng.uniform(0.3, 60), rng.uniform(0, 0.5)
            D = (1 - w) * np.exp(k1 * (np.cos(th - m1) - 1)) / np.sum(np.exp(k1 * (np.cos(th - m1) - 1))) + \
                w * np.exp(k2 * (np.cos(th - m2) - 1)) / np.sum(np.exp(k2 * (np.cos(th - m2) - 1)))
            mm = [float(np.sum(D * np.cos(th))), float(np.sum(D * np.sin(th))), float(np.sum(D * np.cos(2 * th))), float(np.sum(D * np.sin(2 * th)))]
            if mm[0] ** 2 + mm[1] ** 2 < 1:
                extra.append(mm)
    M = np.vstack([M, np.array(extra)])
    Ns = [8, 36, 180] if quick else [8, 24, 36, 90, 180]
    results = {}
    for v in VARIANTS:
        for N, grid in [(N, "ascending from 0") for N in Ns] + [(36, "seam inside: -180..180 reduced to [0,360)"), (24, "seam inside: 90..450 reduced to [0,360)")]:
            d = np.linspace(0, 360, N, endpoint=False)
            if grid.startswith("seam inside: -180"):
                d = np.linspace(-180, 180, N, endpoint=False) % 360          # uniform on the circle, the 0/360 seam inside the array
            elif grid.startswith("seam inside: 90"):
                d = np.linspace(90, 450, N, endpoint=False) % 360
            ctx = {"variant": vname(v), "N": N, "grid": grid}
            try:
                D = estimate_directional_distribution(M[:, 0].copy(), M[:, 1].copy(), M[:, 2].copy(), M[:, 3].copy(), d, method=v[0], **v[1])
            except Exception as e:
                # find a raising quadruple (for the replay file)
                culprit = None
                for i in range(len(M)):
                    try:
                        estimate_directional_distribution(M[i:i + 1, 0].copy(), M[i:i + 1, 1].copy(), M[i:i + 1, 2].copy(), M[i:i + 1, 3].copy(), d, method=v[0], **v[1])
                    except Exception:
                        culprit = M[i].tolist()
                        break
                chk.violation("raise:%s:%s" % (vname(v), type(e).__name__), "estimator %s raised %s" % (vname(v), type(e).__name__),
                              dict(ctx, error=str(e)[:300], moments=culprit))
                continue
            evals += len(M)
            if grid == "ascending from 0":
                results[(vname(v), N)] = D
            step = 360.0 / N
            fin = np.all(np.isfinite(D), axis=-1)
            neg = np.min(np.where(np.isfinite(D), D, 0.0), axis=-1) < -1e-12
            integ = np.abs(np.sum(np.where(np.isfinite(D), D, 0.0), axis=-1) * step - 1.0) > 1e-8
            for name, msk, what in (("finite", ~fin, "is not finite"), ("nonneg", neg, "is negative somewhere"),
                                    ("integral", integ & fin, "does not integrate to one")):
                for i in np.nonzero(msk)[0][:50]:
                    c1, c2 = complex(M[i, 0], M[i, 1]), complex(M[i, 2], M[i, 3])
                    degenerate = abs(abs(c2 - c1 * c1) - (1 - abs(c1) ** 2)) < 1e-12
                    chk.violation("%s:%s%s" % (name, vname(v), ":degenerate-boundary" if degenerate else ""),
                                  "distribution from %s %s" % (vname(v), what),
                                  dict(ctx, moments=M[i].tolist(), integral=float(np.sum(D[i]) * step), minimum=float(np.nanmin(D[i]))))
            for i in range(len(M)):
                distinct.add((vname(v), N, i))

    # batch independence via the TLC-emitted index maps + carried variables + energy round trip -----------------------------------------
    sel = [m for m in maps if m["nf"] >= 2] if maps else []
    unstable = [0]
    order_toggle = [0]
    for v in VARIANTS:
        for bm in (rng.sample(sel, min(len(sel), 3 if quick else 10)) if sel else []):
            nt, nx, nf = bm["nt"], bm["nx"], bm["nf"]
            K = nt * nx * nf
            idx = rng.sample(range(len(M)), K)
            N = rng.choice(Ns)
            d = np.linspace(0, 360, N, endpoint=False)
            arr = np.zeros((nt, nx, nf, 4))
            for t in range(nt):
                for x in range(nx):
                    for f in range(nf):
                        arr[t, x, f] = M[idx[bm["map"][t][x][f]]]
            ctx = {"variant": vname(v), "N": N, "shape": [nt, nx, nf]}
            def layout(a):
                # the same values in C order, or as a transposed view of data stored with the frequency as leading dimension (Fortran
                # order: what xarray's lazy transpose of a (frequency, latitude, time) dataset hands over)
                a = np.ascontiguousarray(a)
                return a if ctx["memory_order"] == "C" else np.transpose(np.ascontiguousarray(np.transpose(a, (2, 1, 0))), (2, 1, 0))
            order_toggle[0] += 1
            ctx["memory_order"] = "F" if order_toggle[0] % 2 else "C"
            try:
                Db = estimate_directional_distribution(layout(arr[..., 0]), layout(arr[..., 1]), layout(arr[..., 2]), layout(arr[..., 3]), d, method=v[0], **v[1])
                D1 = estimate_directional_distribution(arr[0, 0, :, 0].copy(), arr[0, 0, :, 1].copy(), arr[0, 0, :, 2].copy(), arr[0, 0, :, 3].copy(), d, method=v[0], **v[1])
            except Exception as e:
                chk.violation("raise:batch:%s:%s" % (vname(v), type(e).__name__), "estimator raised on a batch", dict(ctx, error=str(e)[:300]))
                continue
            evals += K
            if Db.shape != (nt, nx, nf, N) or D1.shape != (nf, N):
                chk.violation("batch-shape:%s" % vname(v), "batch output shape is wrong", dict(ctx, got=list(Db.shape)))
                continue
            bad = None
            for t in range(nt):
                for x in range(nx):
                    for f in range(nf):
                        q = arr[t, x, f]
                        Ds = estimate_directional_distribution(q[0:1].copy(), q[1:2].copy(), q[2:3].copy(), q[3:4].copy(), d, method=v[0], **v[1])[0]
                        # numba compiles one kernel per array layout (C / Fortran / 1-D), with fast-math: the last bits differ between
                        # kernels, and for moments on which the solver does not converge the last bits decide the output. An element whose
                        # own result changes visibly when its moments are perturbed by 1e-13 has no result to compare with.  Only the
                        # iteration inside a compiled kernel is concerned (mem2:newton): the other variants are closed forms or are
                        # solved element by element through scipy with identical arguments, and are compared as tightly as before.
                        scale_ = max(float(np.nanmax(np.abs(Ds))), 1e-300) if np.any(np.isfinite(Ds)) else 1.0
                        if vname(v) == ITERATES_IN_KERNEL:
                            qp = q * (1.0 + 1e-13)
                            Dp = estimate_directional_distribution(qp[0:1].copy(), qp[1:2].copy(), qp[2:3].copy(), qp[3:4].copy(), d, method=v[0], **v[1])[0]
                            if not np.allclose(Dp, Ds, rtol=0, atol=1e-9 * scale_, equal_nan=True):
                                unstable[0] += 1
                                continue
                            same_ = np.allclose(Db[t, x, f], Ds, rtol=0, atol=1e-7 * scale_, equal_nan=True)
                        else:
                            same_ = np.allclose(Db[t, x, f], Ds, rtol=1e-10, atol=1e-13, equal_nan=True)
                        if not same_:
                            bad = (t, x, f)
            if bad is not None:
                chk.violation("batch-independence:%s" % vname(v), "an element of a batch does not get the result it gets alone",
                              dict(ctx, element=bad, moments=None if bad is None else arr[bad].tolist()))
    # a per-call solver configuration must not change what a later default call does (returned without raising, same result)
    for N in Ns[:2]:
        d = np.linspace(0, 360, N, endpoint=False)
        benign = np.array([[0.6, 0.2, 0.25, 0.2], [0.3, -0.5, -0.1, -0.3]])
        for sm in ("newton", "scipy"):
            key = ("mem2:%s" % sm, N)
            if key not in results:
                continue
            try:
                estimate_directional_distribution(benign[:, 0].copy(), benign[:, 1].copy(), benign[:, 2].copy(), benign[:, 3].copy(), d, method="mem2",
                                                  solution_method=sm, solver_config={"atol": 1e-4, "use_mem_when_failing_to_converge": False})
            except Exception:
                pass          # what the configured call itself does is not the subject
            try:
                again = estimate_directional_distribution(M[:, 0].copy(), M[:, 1].copy(), M[:, 2].copy(), M[:, 3].copy(), d, method="mem2", solution_method=sm)
            except Exception as e:
                chk.violation("raise:after-configured-call:%s:%s" % (sm, type(e).__name__),
                              "a default MEM2 conversion raises after an earlier call that passed its own solver_config", {"N": N, "solver": sm, "error": str(e)[:300]})
                continue
            evals += len(M)
            if not np.allclose(again, results[key], rtol=1e-10, atol=1e-13, equal_nan=True):
                chk.violation("config-history:%s" % sm, "a default MEM2 conversion gives a different result after an earlier call that passed its own solver_config",
                              {"N": N, "solver": sm, "max_abs_diff": float(np.nanmax(np.abs(again - results[key])))})
    # neighbouring members with nearly equal moments (a solution carried from one member to the next must not change the result): the last
    # bin of member t and the first bin of member t+1 differ by at most 0.03 per moment, taken from the noisy / unrealisable quadruples too
    for v in VARIANTS:
        for rep in range(2 if quick else 12):
            nt, nf = 4, 2
            N = rng.choice([24, 36])
            d = np.linspace(0, 360, N, endpoint=False)
            arr = np.zeros((nt, nf, 4))
            for t in range(nt):
                arr[t, 1] = M[rng.randrange(len(M))]
            for t in range(nt):
                base = arr[t - 1, 1] if t > 0 else M[rng.randrange(len(M))]
                arr[t, 0] = base + np.array([rng.uniform(-0.03, 0.03) for _ in range(4)])
            ctx = {"variant": vname(v), "N": N, "shape": [nt, nf], "moments": arr.tolist()}
            try:
                Db = estimate_directional_distribution(arr[..., 0].copy(), arr[..., 1].copy(), arr[..., 2].copy(), arr[..., 3].copy(), d, method=v[0], **v[1])
                alone = [estimate_directional_distribution(arr[t:t + 1, :, 0].copy(), arr[t:t + 1, :, 1].copy(), arr[t:t + 1, :, 2].copy(),
                                                           arr[t:t + 1, :, 3].copy(), d, method=v[0], **v[1])[0] for t in range(nt)]
            except Exception as e:
                chk.violation("raise:neighbours:%s:%s" % (vname(v), type(e).__name__), "estimator raised on a batch of similar members", dict(ctx, error=str(e)[:300]))
                continue
            evals += 2 * nt * nf
            for t in range(nt):
                # (bins whose own result changes visibly under a 1e-13 perturbation of the moments are skipped: see above)
                kernel = vname(v) == ITERATES_IN_KERNEL
                if kernel:
                    ap = arr[t:t + 1] * (1.0 + 1e-13)
                    pert = estimate_directional_distribution(ap[:, :, 0].copy(), ap[:, :, 1].copy(), ap[:, :, 2].copy(), ap[:, :, 3].copy(), d, method=v[0], **v[1])[0]
                hit = None
                for f_ in range(nf):
                    scale_ = max(float(np.nanmax(np.abs(alone[t][f_]))), 1e-300) if np.any(np.isfinite(alone[t][f_])) else 1.0
                    if kernel:
                        if not np.allclose(pert[f_], alone[t][f_], rtol=0, atol=1e-9 * scale_, equal_nan=True):
                            unstable[0] += 1
                            continue
                        same_ = np.allclose(Db[t][f_], alone[t][f_], rtol=0, atol=1e-7 * scale_, equal_nan=True)
                    else:
                        same_ = np.allclose(Db[t][f_], alone[t][f_], rtol=1e-10, atol=1e-13, equal_nan=True)
                    if not same_:
                        hit = f_
                        break
                if hit is not None:
                    chk.violation("batch-independence:neighbours:%s" % vname(v), "a member of a batch of similar spectra does not get the result it gets alone",
                                  dict(ctx, member=t, frequency_index=hit, max_abs_diff=float(np.nanmax(np.abs(Db[t][hit] - alone[t][hit]))), peak=float(np.nanmax(alone[t][hit]))))
                    break
    # spectrum level: E round trip, variance, carried variables
    for v in VARIANTS:
        for rep in range(2 if quick else 8):
            nf, B = 8, rng.choice([1, 3])
            f = np.linspace(0.05, 0.5, nf)
            idx = [rng.randrange(len(M)) for _ in range(B * nf)]
            mm = M[idx].reshape(B, nf, 4)
            E = np.array([[rng.uniform(0.1, 3.0) for _ in range(nf)] for _ in range(B)])
            tim, lat, lon, dep = np.arange(B) * 3600, np.arange(B) * 1.0 + 3, np.arange(B) * -2.0, np.array([rng.choice([np.inf, 25.0]) for _ in range(B)])
            s1 = create_1d_spectrum(f, E, tim, lat, lon, a1=mm[..., 0], b1=mm[..., 1], a2=mm[..., 2], b2=mm[..., 3], depth=dep)
            if rep % 2 == 1:
                # time stamps as a logger or a netcdf file delivers them (sub-second), assigned after construction
                stamps = np.array([np.datetime64("2022-03-04T05:06:07.250") + np.timedelta64(2500 * i, "ms") for i in range(B)]).astype("datetime64[ns]")
                s1.dataset = s1.dataset.assign_coords(time=("time", stamps))
            N = rng.choice(Ns)
            ctx = {"variant": vname(v), "N": N, "batch": B, "sub_second_time_stamps": rep % 2 == 1}
            try:
                s2 = s1.as_frequency_direction_spectrum(N, method=v[0], **v[1])
                back = s2.as_frequency_spectrum()
            except Exception as e:
                chk.violation("raise:as2d:%s:%s" % (vname(v), type(e).__name__), "as_frequency_direction_spectrum raised", dict(ctx, error=str(e)[:300]))
                continue
            evals += 1
            if not np.allclose(back.e.values, E, rtol=1e-8) or not np.allclose(back.m0().values, s1.m0().values, rtol=1e-8):
                chk.violation("energy-roundtrip:%s" % vname(v), "1D -> 2D -> 1D does not return the original e(f) / total variance", ctx)
            for name in ("time", "latitude", "longitude", "depth"):
                if not np.array_equal(np.asarray(getattr(s1, name).values), np.asarray(getattr(s2, name).values)):
                    chk.violation("carry:%s" % name, "%s is not carried over by as_frequency_direction_spectrum" % name, ctx)
    # every N in 8..180: the direction grid of the 2D spectrum is the uniform N-point grid and energy is conserved
    f = np.linspace(0.05, 0.5, 4)
    mm = M[[rng.randrange(len(quads)) for _ in range(4)]]
    s1 = create_1d_spectrum(f, np.array([[1.0, 2.0, 0.5, 1.5]]), np.array([0]), np.zeros(1), np.zeros(1), a1=mm[None, :, 0], b1=mm[None, :, 1],
                            a2=mm[None, :, 2], b2=mm[None, :, 3], depth=np.array([np.inf]))
    for N in range(8, 181):
        for v in (VARIANTS[:1] if (quick and N % 4) else VARIANTS[:2]):
            try:
                s2 = s1.as_frequency_direction_spectrum(N, method=v[0], **v[1])
            except Exception as e:
                chk.violation("raise:allN:%s" % vname(v), "as_frequency_direction_spectrum(%d) raised" % N, {"N": N, "error": str(e)[:200]})
                continue
            evals += 1
            dd = s2.direction.values
            okgrid = len(dd) == N and np.allclose(dd, np.arange(N) * 360.0 / N, rtol=0, atol=1e-9)
            oke = np.allclose(s2.as_frequency_spectrum().e.values, s1.e.values, rtol=1e-8)
            if not (okgrid and oke):
                chk.violation("grid-N:%s" % vname(v), "as_frequency_direction_spectrum(N=%d): not the uniform N-point direction grid / energy not conserved" % N,
                              {"N": N, "variant": vname(v), "n_directions": int(len(dd)), "e_back": s2.as_frequency_spectrum().e.values.tolist(), "e": s1.e.values.tolist()})
    chk.set("mem2_newton_batch_elements_skipped_because_their_own_result_is_chaotic_under_a_1e-13_perturbation", unstable[0])
    chk.set("evaluations", evals)
    chk.set("distinct_nontrivial", len(distinct))
    chk.assume("the specification decides the quantifier domain (rational lattice inside the open unit disc, incl. unrealisable quadruples), the abstract "
               "obligation (returned, finite, non-negative) and the batch index maps; the unit integral and the energy round trip are float comparisons")
    return chk.finish(rule="TLC enumerates a rational moment lattice and the batch index maps; plus random noisy and narrow/bimodal realisable moments; "
                           "four estimator variants x N in %s; distinct = (variant, N, quadruple) triples" % Ns)


def replay(path):
    with open(path) as fp:
        print(fp.read()[:4000])
    return 0
