"""C10 - Roughness lengths satisfy their defining implicit equations."""
import json
import math
import os
import random
import shutil

from vlib import common
from vlib import phys_common as pc

PID = "C10"
G = 9.81


def run(tier):
    quick = tier == "quick"
    chk = common.Check(PID, "exploration", tier)
    rng = random.Random(chk.seed + 10)
    common.setup_numba_cache()
    import numpy as np
    import xarray
    from ocean_science_utilities.wavephysics import roughness as R
    from ocean_science_utilities.wavephysics.fluidproperties import AIR
    from ocean_science_utilities.wavephysics.balance.factory import create_balance
    from ocean_science_utilities.wavephysics.balance.stress import _stress_iteration_function, _total_stress_point
    work = common.scratch_dir("c10")
    evals, distinct = 0, set()
    try:
        pc.tlc_signsupport(chk)
        tr = pc.SupportTrace(os.path.join(work, "c10.ndjson"))
        kappa, nu = AIR.vonkarman_constant, AIR.kinematic_viscosity
        # ---- Charnock ------------------------------------------------------------------------------------------------
        for rep in range(12 if quick else 3000):
            alpha = rng.uniform(0.005, 0.04)
            visc = rng.choice([0.0, 0.0, 0.11])
            n = rng.choice([1, 5, 40])
            # winds log-uniform in 0.1 .. 80 m/s (light winds are as frequent as gales)
            U = np.array(sorted(math.exp(rng.uniform(math.log(0.1), math.log(80.0))) for _ in range(n)))
            # missing winds: a few, or (every third configuration) more missing than valid values
            pnan = 0.7 if rep % 3 == 2 else 0.2
            nanpos = [i for i in range(n) if n > 1 and rng.random() < pnan]
            if n > 1 and len(nanpos) == n:
                nanpos = nanpos[1:]
            Uin = U.copy()
            Uin[nanpos] = np.nan
            form = rng.choice(["array", "dataarray", "scalar"]) if n == 1 else rng.choice(["array", "dataarray"])
            arg = float(Uin[0]) if form == "scalar" else (xarray.DataArray(Uin) if form == "dataarray" else Uin)
            ctx = {"charnock": alpha, "viscous": visc, "input": form, "n": n}
            try:
                z0 = np.atleast_1d(np.asarray(R.charnock_roughness_length_from_u10(arg, charnock_constant=alpha, viscous_constant=visc).values, dtype="float64"))
                cd = np.atleast_1d(np.asarray(R.drag_coefficient_charnock(arg, charnock_constant=alpha, viscous_constant=visc), dtype="float64"))
            except Exception as e:
                chk.violation("raise:charnock:%s" % type(e).__name__, "Charnock roughness raised %s" % type(e).__name__, dict(ctx, error=str(e)[:300]))
                continue
            evals += n
            distinct.add(("charnock", rep))
            tr.add({"kind": "mask", "what": "charnock z0", "inm": [1 if i in nanpos else 0 for i in range(n)], "outm": [1 if math.isnan(v) else 0 for v in z0]})
            tr.add({"kind": "mask", "what": "charnock Cd", "inm": [1 if i in nanpos else 0 for i in range(n)], "outm": [1 if math.isnan(v) else 0 for v in cd]})
            good = [i for i in range(n) if i not in nanpos]
            for i in good:
                if not (z0[i] > 0 and math.isfinite(z0[i])):
                    chk.violation("charnock-positive", "Charnock roughness is not a positive length", dict(ctx, U=float(U[i]), z0=float(z0[i])))
                    break
                ust = kappa * U[i] / math.log(10.0 / z0[i])
                rhs = alpha * ust ** 2 / G + visc * nu / ust
                if abs(z0[i] - rhs) > 1e-4 * z0[i] or abs(cd[i] - (kappa / math.log(10.0 / z0[i])) ** 2) > 1e-9 * cd[i]:
                    chk.violation("charnock-residual", "z0 does not satisfy z0 = alpha u*^2/g + c nu/u* with u* = kappa U / ln(10/z0) (or Cd is not (kappa/ln(10/z0))^2)",
                                  dict(ctx, U=float(U[i]), z0=float(z0[i]), rhs=float(rhs), cd=float(cd[i])))
                    break
            if visc == 0.0 and len(good) > 1:
                zs = [z0[i] for i in good]
                cs = [cd[i] for i in good]
                tr.add({"kind": "mono", "what": "z0 increases with U", "rk": [sorted(zs).index(v) + 1 for v in zs] if len(set(zs)) == len(zs) else [1, 1]})
                tr.add({"kind": "mono", "what": "Cd increases with U", "rk": [sorted(cs).index(v) + 1 for v in cs] if len(set(cs)) == len(cs) else [1, 1]})
        # ---- Janssen (wave dependent) roughness -------------------------------------------------------------------------------------
        f = pc.freq()
        bal = create_balance("st4", "st4")
        bal_visc = create_balance("st4", "st4")
        bal_visc.generation.update_parameters({"viscous_stress_parameter": 0.11})      # total stress = wave supported + tail + VISCOUS
        for ci_, (N, start) in enumerate([(24, 0), (36, 0)] if quick else [(16, 0), (24, 0), (24, 5), (36, 0), (24, 0), (36, 5)]):
            gen = (bal_visc if ci_ % 2 else bal).generation
            dirs = [start + j * 360.0 / N for j in range(N)]
            B = 4 if quick else 24
            vds, winds, wdirs, depths, seas = [], [], [], [], []
            for b in range(B):
                md = rng.uniform(0, 360)
                sea_ = (rng.uniform(0.1, 0.3), rng.uniform(0.5, 5.0), md, rng.uniform(20, 50))
                seas.append(list(sea_))
                vds.append(pc.sea(f, dirs, *sea_))
                winds.append(rng.uniform(2.0, 35.0))
                wdirs.append((md + rng.uniform(-60, 60)) % 360)
                depths.append(rng.choice([np.inf, 25.0]))
            spec = pc.spectrum(f, dirs, vds, depths)
            U, W = pc.da(winds), pc.da(wdirs)
            # phase 0: the generation object as configured; phase 1: the SAME generation, spectrum and wind objects after update_parameters
            # (the roughness must be the root for the parameters in force now)
            saved = {k: gen._parameters[k] for k in ("growth_parameter_betamax", "charnock_constant")}
            z0_first = None
            for phase in (0, 1):
                if phase == 1:
                    gen.update_parameters({"growth_parameter_betamax": 1.33, "charnock_constant": 0.0144})
                try:
                    z0 = gen.roughness(U, W, spec).values
                except Exception as e:
                    chk.violation("raise:janssen:%s" % type(e).__name__, "wave dependent roughness raised %s" % type(e).__name__, {"N": N, "error": str(e)[:300]})
                    continue
                evals += B
                if phase == 0:
                    z0_first = z0
                grid, par = gen.spectral_grid(spec), gen.parameters
                logs = np.linspace(-20.0, 0.0, 43)[1:-1]          # 41 interior points of the search interval
                for b in range(B):
                    wind = (float(winds[b]), float(wdirs[b]), "u10")
                    vals = []
                    for lz in logs:
                        try:
                            vals.append(float(_stress_iteration_function(float(lz), np.asarray(vds[b]), wind, float(depths[b]), gen._wind_source_term_function,
                                                                         gen._tail_stress_parametrization_function, grid, par, np.empty(np.asarray(vds[b]).shape))))
                        except Exception:
                            vals.append(0.0)       # the balance function is not defined here: no obligation from this scan
                    sg = [1 if v > 0 else -1 if v < 0 else 0 for v in vals]
                    zb = float(z0[b])
                    ctx = {"N": N, "point": b, "U10": winds[b], "wind_dir": wdirs[b], "depth": float(depths[b]), "after_update_parameters": phase == 1}
                    if not (math.isnan(zb) or zb > 0):
                        chk.violation("janssen-positive", "wave dependent roughness is neither missing nor a positive length", dict(ctx, z0=zb))
                        continue
                    if math.isnan(zb):
                        res = 0
                    else:
                        lz = math.log(zb)
                        res = int(np.searchsorted(logs, lz))          # cell index: logs[res-1] <= lz < logs[res]
                        if res < 1:
                            res = len(sg)                            # below the first scan point: outside every cell (0 is reserved for 'missing')
                    tr.add({"kind": "root", "what": "janssen z0 N=%d point=%d phase=%d" % (N, b, phase), "sg": sg, "res": res, "finite": 0,
                            "ctx": {"U10": float(winds[b]), "wind_dir": float(wdirs[b]), "depth": str(depths[b]), "z0": (zb if zb == zb else "nan"), "log_z0": (math.log(zb) if zb > 0 else "nan"), "viscous": float(par["viscous_stress_parameter"]), "sea": seas[b]}})
                    distinct.add(("janssen", N, start, b))
                    single = sum(1 for i in range(len(sg) - 1) if sg[i] * sg[i + 1] < 0) == 1 and 0 not in sg
                    if single and not math.isnan(zb):
                        kap = par["vonkarman_constant"]
                        ust = winds[b] * kap / math.log(par["elevation"] / zb)
                        tau, _ = _total_stress_point(zb, np.asarray(vds[b]), wind, float(depths[b]), gen._wind_source_term_function,
                                                     gen._tail_stress_parametrization_function, grid, par)
                        lhs = par["air_density"] * ust ** 2
                        if abs(lhs - tau) > 1e-4 * lhs:
                            chk.violation("janssen-balance", "returned roughness does not satisfy rho_air u*^2 = total stress (1e-4 relative)", dict(ctx, z0=zb, lhs=lhs, total_stress=float(tau)))
            gen.update_parameters(saved)
            z0 = z0_first
            if z0_first is None:
                continue
            # missing wind speed -> missing roughness, neighbours untouched
            Un = np.array(winds)
            Un[0] = np.nan
            zn = gen.roughness(pc.da(Un), W, spec).values
            evals += B
            tr.add({"kind": "mask", "what": "janssen z0 missing wind N=%d" % N, "inm": [1] + [0] * (B - 1),
                    "outm": [1 if math.isnan(v) else 0 for v in zn] if all(not math.isnan(v) for v in z0[1:]) else [1] + [0] * (B - 1)})
            if not np.allclose(zn[1:], z0[1:], rtol=1e-12, equal_nan=True):
                chk.violation("janssen-neighbours", "a missing wind speed disturbs the roughness of other points", {"N": N})
        tr.validate(chk, "C10")
        demo = os.path.join(work, "demo.ndjson")
        with open(demo, "w") as fp:
            fp.write(json.dumps({"id": 0, "kind": "root", "sg": [1, 1, -1, -1], "res": 3, "finite": 0}) + "\n")
        rd = common.run_tlc("SignSupportTrace", "SignSupportTrace.cfg", workers=1, timeout=300, env={"TRACE_FILE": demo})
        okdemo = any("RootCell" in p for p in rd.prints)
        chk.set("binding_demo", {"corrupted_rejected": okdemo})
        if not okdemo:
            chk.machinery("binding demonstration failed")
        # histories of one long-lived balance (BalanceSession.tla behaviours): evaluations interleaved with parameter updates
        from vlib import balance_session as bs
        behs = bs.tlc_behaviours(chk, "c10", quick, chk.seed)
        nb_ = 0
        for pair_ in (("st4", "st4"),):
            nb_ += bs.replay(chk, behs, pair_, "C10")
        chk.add("spec_traces_replayed", len(behs))
        chk.set("balance_session_evaluations_compared", nb_)
        evals += nb_
        chk.set("evaluations", evals)
        chk.set("distinct_nontrivial", len(distinct))
        chk.assume("the specification decides missing-value propagation, ordering and the cell that must contain the Janssen root (41-point scan of the "
                   "stress balance built from the code's own stress function); residuals are float comparisons (1e-4 relative)")
        return chk.finish(rule="U in [0.1,80], Charnock constants 0.005..0.04, with/without viscous term, scalar/array/DataArray with NaNs; Janssen: wind seas x winds "
                               "with the balance function scanned on 41 points; distinct = Charnock configurations + (grid, point) Janssen cases")
    finally:
        shutil.rmtree(work, ignore_errors=True)


def replay(path):
    from vlib import phys_common
    return phys_common.replay_record(path, "SignSupportTrace", "SignSupportTrace.cfg")
