"""Histories of ONE long-lived source-term balance (BalanceSession.tla) replayed on real objects.  Oracle = freshness: every
result of the long-lived pair equals the result of a brand-new pair with the same parameters, evaluated on new spectrum objects
holding the same data.  Used by C08 (rates, bulk rates, imbalance), C10 (roughness) and C11 (wind inversion)."""
import json
import math

from vlib import common
from vlib import phys_common as pc

P1 = {"growth_parameter_betamax": 1.33, "charnock_constant": 0.0144, "saturation_breaking_constant": 3.0e-5}


def tlc_behaviours(chk, which, quick, seed):
    r = common.run_tlc("MCBalanceSession", "BalanceSession_mc.cfg", workers=8, timeout=1200)
    chk.tlc(r, "histories of one balance (evaluations on 3 spectra x 2 winds interleaved with parameter updates, 3 operations): every result is fresh")
    if r.violated:
        chk.violation("model:balance-session:%s" % r.violated, "BalanceSession violates %s" % r.violated, {"tlc": r.out[-1200:]})
    elif not r.ok:
        chk.machinery("TLC failed on BalanceSession_mc: %s" % r.error)
    for variant in ("bad_grid", "bad_rough"):
        rv = common.run_tlc("MCBalanceSession", "BalanceSession_%s.cfg" % variant, workers=4, timeout=600)
        if rv.violated != "QueriesFresh":
            chk.machinery("non-vacuity: the memoising design %s was not rejected (%s)" % (variant, rv.violated or rv.error))
    chk.set("balance_session_non_vacuity", "designs grid_by_shape and rough_ignores_params rejected by QueriesFresh")
    rg = common.run_tlc("MCBalanceSession", "BalanceSession_gen_%s.cfg" % which, workers=1, timeout=900,
                        simulate="num=%d" % (10 if quick else 150), depth=10, extra=["-seed", str(seed % 100000 + 5)])
    out = []
    for p in rg.prints:
        try:
            out.append(json.loads(p))
        except Exception:
            pass
    if not out:
        chk.machinery("TLC simulation of BalanceSession produced no behaviours: %s" % (rg.error or rg.out[-300:]))
    chk.set("balance_session_behaviours", len(out))
    return out


def replay(chk, behaviours, pair, label):
    """pair: (generation name, dissipation name).  Returns number of compared evaluations."""
    import numpy as np
    from ocean_science_utilities.wavephysics.balance.factory import create_balance
    from ocean_science_utilities.wavephysics.windestimate import estimate_u10_from_source_terms
    f_lin = pc.freq()
    f_log = 0.04 * (1.0 / 0.04) ** (np.arange(len(f_lin)) / (len(f_lin) - 1.0))
    grids = {"A": (f_lin, [j * 15.0 for j in range(24)]), "B": (f_log, [7.5 + j * 15.0 for j in range(24)]),
             "C": (np.linspace(0.05, 0.8, 30), [j * 22.5 for j in range(16)])}
    winds = {"w1": ([9.0, 14.0], [40.0, 100.0]), "w2": ([16.0, 7.0], [200.0, 300.0]), "-": ([9.0, 14.0], [40.0, 100.0])}

    def make(name):
        f, dirs = grids[name]
        vds = [pc.sea(f, dirs, 0.14, 2.5, 50.0, 30.0), pc.sea(f, dirs, 0.2, 1.5, 110.0, 35.0) + pc.sea(f, dirs, 0.08, 0.8, 300.0, 15.0)]
        return pc.spectrum(f, dirs, vds, [np.inf, 30.0])

    def call(bal, op, spec, wname):
        U, W = pc.da(winds[wname][0]), pc.da(winds[wname][1])
        if op == "rate":
            return [bal.generation.rate(spec, U, W).values]
        if op == "diss":
            return [bal.dissipation.rate(spec).values]
        if op == "bulk":
            return [bal.generation.bulk_rate(spec, U, W).values, bal.dissipation.bulk_rate(spec).values]
        if op == "imbalance":
            dEdt = pc.spectrum(grids_of[id(spec)][0], grids_of[id(spec)][1], [0.01 * np.asarray(v) for v in spec.variance_density.values], [np.inf, 30.0])
            return [bal.evaluate_imbalance(U, W, spec, dEdt).values]
        if op == "roughness":
            return [bal.generation.roughness(U, W, spec).values]
        if op == "invert":
            res = estimate_u10_from_source_terms(spec, bal)
            return [res["u10"].values, res["direction"].values]
        raise ValueError(op)
    compared = 0
    for beh in behaviours:
        bal = create_balance(*pair)
        p0 = {k: bal.get_parameters[k] for k in P1 if k in bal.get_parameters}
        psets = {"p0": p0, "p1": {k: v for k, v in P1.items() if k in p0}}
        if beh["init"] != "p0":
            bal.update_parameters(psets[beh["init"]])
        current = beh["init"]
        specs = {n: make(n) for n in grids}
        grids_of = {id(specs[n]): grids[n] for n in grids}
        done = []
        for op in beh["hist"]:
            done.append(op)
            if op["op"] == "update":
                bal.update_parameters(psets[op["par"]])
                current = op["par"]
                continue
            ref = create_balance(*pair)
            if current != "p0":
                ref.update_parameters(psets[current])
            rspec = make(op["spec"])
            grids_of[id(rspec)] = grids[op["spec"]]
            before = specs[op["spec"]].variance_density.values.copy()
            ctx = {"pair": "%s/%s" % pair, "history": done, "parameters_in_force": current}
            try:
                got = call(bal, op["op"], specs[op["spec"]], op["wind"])
                err_a = None
            except Exception as e:
                got, err_a = None, type(e).__name__
            try:
                want = call(ref, op["op"], rspec, op["wind"])
                err_b = None
            except Exception as e:
                want, err_b = None, type(e).__name__
            compared += 1
            same = err_a == err_b and (err_a is not None or all(np.allclose(a, b, rtol=1e-10, atol=0.0, equal_nan=True) for a, b in zip(got, want)))
            if not same:
                chk.violation("balance-session:%s:%s:%s" % (label, op["op"], "-".join(o["op"] for o in done)),
                              "after a history of evaluations and parameter updates, %s of the long-lived balance differs from %s of a new balance with the same parameters" % (op["op"], op["op"]),
                              dict(ctx, on_object=err_a or [np.asarray(a).ravel()[:6].tolist() for a in got], on_new_objects=err_b or [np.asarray(b).ravel()[:6].tolist() for b in want]))
                break
            if not np.array_equal(before, specs[op["spec"]].variance_density.values, equal_nan=True):
                chk.violation("balance-session:%s:spectrum-modified" % label, "an evaluation modified the spectrum it was given", ctx)
                break
    return compared
