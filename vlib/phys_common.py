"""Shared by drive_C08 / C09 / C10 / C11: spectrum builders for the wave-physics properties, trace
recording for SignSupportTrace.tla."""
import json
import math
import os

from vlib import common

FREQ = None


def freq():
    import numpy as np
    return np.linspace(0.04, 1.0, 40)


def lobe(dirs, md, width):
    import numpy as np
    d = (np.asarray(dirs) - md + 180.0) % 360.0 - 180.0
    c = np.cos(np.radians(d) / 2.0)
    p = 4.0 / max(math.radians(width), 1e-3) ** 2 / 2.0
    D = np.where(np.abs(d) < 180, np.abs(c) ** (2 * p), 0.0)
    return D / (np.sum(D) * (360.0 / len(dirs)))


def jonswap(f, fp, hs, gamma=3.3):
    import numpy as np
    sig = np.where(f <= fp, 0.07, 0.09)
    with np.errstate(all="ignore"):
        E = f ** -5.0 * np.exp(-1.25 * (fp / f) ** 4) * gamma ** np.exp(-0.5 * ((f - fp) / (sig * fp)) ** 2)
    E = np.nan_to_num(E)
    m0 = np.trapezoid(E, f) if hasattr(np, "trapezoid") else np.trapz(E, f)
    return E * (hs / 4.0) ** 2 / m0


def sea(f, dirs, fp, hs, md, width=30.0):
    return jonswap(f, fp, hs)[:, None] * lobe(dirs, md, width)[None, :]


def random_field(rng, f, dirs, zero_fraction=0.2):
    import numpy as np
    vd = sea(f, dirs, rng.uniform(0.08, 0.3), rng.uniform(0.5, 4.0), rng.uniform(0, 360), rng.uniform(15, 60))
    if rng.random() < 0.6:
        vd = vd + sea(f, dirs, rng.uniform(0.05, 0.1), rng.uniform(0.3, 2.0), rng.uniform(0, 360), rng.uniform(10, 25))
    noise = np.array([[rng.random() for _ in dirs] for _ in f])
    vd = vd * (0.5 + noise)
    mask = np.array([[rng.random() < zero_fraction for _ in dirs] for _ in f])
    return np.where(mask, 0.0, vd)


def spectrum(f, dirs, vds, depths=None):
    import numpy as np
    from ocean_science_utilities.wavespectra.spectrum import create_2d_spectrum
    B = len(vds)
    dep = np.full(B, np.inf) if depths is None else np.asarray(depths, dtype="float64")
    return create_2d_spectrum(np.asarray(f), np.asarray(dirs, dtype="float64"), np.asarray(vds), np.arange(B) * 3600,
                              np.zeros(B), np.zeros(B), depth=dep)


def da(values):
    import numpy as np
    import xarray
    return xarray.DataArray(np.asarray(values, dtype="float64"), dims=["time"])


def sign_matrix(a, tol=0.0):
    import numpy as np
    return np.where(a > tol, 1, np.where(a < -tol, -1, 0)).astype(int).tolist()


class SupportTrace:
    def __init__(self, path):
        self.path = path
        self.fp = open(path, "w")
        self.recs = {}

    def add(self, rec):
        rec["id"] = len(self.recs)
        self.recs[rec["id"]] = rec
        self.fp.write(json.dumps(rec) + "\n")

    def validate(self, chk, label):
        self.fp.close()
        if not self.recs:
            return
        r = common.run_tlc("SignSupportTrace", "SignSupportTrace.cfg", workers=1, timeout=3600, env={"TRACE_FILE": self.path})
        done = None
        for p in r.prints:
            d = json.loads(p)
            if d.get("done"):
                done = d
                continue
            rec = self.recs[d["id"]]
            if rec["kind"] == "support":
                chk.violation("trace:%s:%s" % (label, rec.get("what", "support")),
                              "recorded sign pattern violates the sign / support abstraction (%s) at bins %s" % (rec.get("what"), d["bins"][:5]),
                              {"record": {k: v for k, v in rec.items() if k not in ("inp", "dis", "en")}, "bins_f_j": d["bins"][:20]})
            elif rec["kind"] in ("mask", "mono"):
                clause = "missing inputs give missing outputs and nothing else is missing" if rec["kind"] == "mask" else "the outputs increase with the inputs"
                chk.violation("trace:%s:%s:%s" % (label, rec["kind"], rec.get("what", "")),
                              "recorded %s violates: %s (%s)" % (rec.get("what", rec["kind"]), clause, d.get("clauses")), {"record": rec})
            else:
                chk.violation("trace:%s:root:%s" % (label, rec.get("what", "")),
                              "returned root is not in the cell of the single sign change (cell %s, got %s) [%s]" % (d["cell"], rec["res"], rec.get("what")),
                              {"record": rec})
        if done is None or done["consumed"] != len(self.recs):
            chk.machinery("SignSupportTrace did not consume the trace: %s" % (r.error or r.out[-500:]))
        chk.add("traces_validated_against_impl", len(self.recs))


def tlc_signsupport(chk):
    r = common.run_tlc("SignSupportMC", "SignSupportMC.cfg", workers=16, timeout=1800)
    chk.tlc(r, "sign/support abstraction: invariant under joint rotation and mirror, support at most half the circle; root-scan laws on all sign vectors up to length 7")
    if r.violated:
        chk.violation("model:signsupport:%s" % r.violated, "SignSupport abstraction violates its own laws", {"tlc": r.out[-1200:]})
    elif not r.ok:
        chk.machinery("TLC failed on SignSupportMC: %s" % r.error)


def replay_record(path, module="SignSupportTrace", cfg="SignSupportTrace.cfg"):
    """./check <id> --replay <file>: a violation file of a trace clause holds the recorded observation; it is judged again by the trace
    specification alone (exit status 1 = the specification rejects the record).  Other violation files are printed."""
    import shutil
    with open(path) as fp:
        d = json.load(fp)
    rec = (d.get("replay") or {}).get("record")
    print(json.dumps({k: v for k, v in d.items() if k != "replay"}, indent=1))
    if not isinstance(rec, dict) or "kind" not in rec:
        print(json.dumps(d.get("replay"), indent=1, default=str)[:6000])
        print("(no recorded trace record in this file: nothing to re-judge)")
        return 0
    work = common.scratch_dir("replay")
    try:
        one = os.path.join(work, "one.ndjson")
        rec = dict(rec, id=0)
        with open(one, "w") as fp:
            fp.write(json.dumps(rec) + "\n")
        r = common.run_tlc(module, cfg, workers=1, timeout=600, env={"TRACE_FILE": one})
        verdicts = [json.loads(p) for p in r.prints]
        done = [v for v in verdicts if v.get("done")]
        rejected = [v for v in verdicts if not v.get("done")]
        print("record: %s" % json.dumps({k: v for k, v in rec.items() if k not in ("inp", "dis", "en", "scan")})[:3000])
        if not done:
            print("MACHINERY-FAILURE trace validation did not finish: %s" % (r.error or r.out[-400:]))
            return 2
        if rejected:
            print("VIOLATION property=%s replay=%s" % (d.get("property"), path))
            print("  what: %s rejects the recorded observation: %s" % (module, json.dumps(rejected[0])[:500]))
            return 1
        print("the recorded observation satisfies every clause")
        return 0
    finally:
        shutil.rmtree(work, ignore_errors=True)
