"""Harness around the real FileCache: instrumented in-memory resource, virtual clock, fault plans,
gates, crash snapshots, projections and trace recording (DESIGN.md 2.4, Appendix B).

Nothing in /repo is patched.  In this process only, os.utime(path, None) (what Path.touch calls) is
redirected to a logical clock and os.replace is wrapped to *observe* commits.
"""
import hashlib
import json
import os
import shutil
import threading
import time

from vlib import common

BASE_NS = 4_000_000_000 * 10**9  # logical time lives far in the future: real-time atime updates
                                 # (reads) can never exceed a logical stamp

_orig_utime = os.utime
_orig_replace = os.replace


class VClock:
    def __init__(self):
        self.lock = threading.Lock()
        self.t = 0

    def tick(self):
        with self.lock:
            self.t += 1
            return BASE_NS + self.t * 10**9


CLOCK = VClock()
_WORLD = {"w": None}


def _utime(path, times=None, *, ns=None, **kw):
    if times is None and ns is None:
        t = CLOCK.tick()
        return _orig_utime(path, ns=(t, t), **kw)
    if ns is not None:
        return _orig_utime(path, ns=ns, **kw)
    return _orig_utime(path, times, **kw)


def _replace(src, dst, **kw):
    r = _orig_replace(src, dst, **kw)
    w = _WORLD["w"]
    if w is not None:
        try:
            w.on_replace(str(src), str(dst))
        except Exception:
            pass
    return r


def install_patches():
    os.utime = _utime
    os.replace = _replace


def stamp(path):
    t = CLOCK.tick()
    _orig_utime(path, ns=(t, t))


DEFAULT_KEYS = {
    # key: (resource, size_kb, postprocess, validate, comment suffix)
    "a": ("a", 300, False, False, ""),
    "ax": ("a", 300, True, False, "x"),
    "b": ("b", 300, False, True, ""),
    "c": ("c", 600, False, False, ""),
}
BIG_KEYS = dict(DEFAULT_KEYS)
BIG_KEYS.update({
    "d": ("d", 300, False, False, ""),
    "e": ("e", 600, True, False, ""),
    "f": ("f", 300, False, True, ""),
    "g": ("g", 900, False, False, ""),
    "h": ("h", 300, False, False, ""),
    "z": ("z", 0, False, False, ""),          # an empty resource is a resource too
})


class InjectedIOError(IOError):
    pass


class InjectedPPError(RuntimeError):
    pass


class World:
    """One cache directory plus the remote world behind it."""

    _names = [0]

    def __init__(self, keys=None, root=None, registry=False):
        from ocean_science_utilities.filecache import cache_object as co
        from ocean_science_utilities.filecache import filecache as fcmod
        self.fcmod = fcmod
        self.registry = registry        # drive the cache through the module level API of filecache.py
        self.regname = None
        from ocean_science_utilities.filecache.remote_resources import (
            RemoteResource, _RemoteResourceUriNotFound)
        self.co = co
        self.NotFound = _RemoteResourceUriNotFound
        self.keys = dict(keys or DEFAULT_KEYS)
        self.root = root or common.scratch_dir("fc")
        self.dir = os.path.join(self.root, "cache0")
        os.makedirs(self.dir, exist_ok=True)
        self.gen = 0
        self.cache = None
        self.lock = threading.Lock()
        self.rseq = 0
        self.log = []           # (rseq, stage, key, thread, uri)
        self.plan = {}          # key -> outcome for the attempt started during the current call
        self.failed = set()
        self.rejects = set()
        self.hooks = []         # callables (stage, key, path) run in the worker thread
        self.live_attempts = 0  # download attempts in flight (zombies outlive their call)
        self.foreign_state = "none"
        self.foreign_bytes = b"user data, not a cache file\n" * 10
        # user files whose names resemble cache files (prefix only, postfix only, temp-like, config-like)
        self.foreign_names = ["user_notes.txt", "cachefile_station_index.txt", "notes_cachefile",
                              "cachefile_0123456789abcdef0123456789abcdef_cachefile.bak", "file_cache_config.json.orig"]
        self.faulty = False
        self.last_commit = None
        self.lastuse = {}       # key -> logical time at which a request last returned it (a "use")
        world = self

        class MemResource(RemoteResource):
            URI_PREFIX = "mem://"

            def download(self):
                return world._download

        class AltResource(RemoteResource):
            URI_PREFIX = "alt://"

            def download(self):
                return world._download

        self.resource = MemResource()
        self.resources = [self.resource, AltResource()]
        # name maps are computed with the real naming function on first open
        self.name_of = {}
        self.key_of_name = {}
        self.name_clash = False
        d = os.path.join(self.root, "names")
        os.makedirs(d, exist_ok=True)
        self._learn_names(self.co.FileCache(d, size_GB=1, resources=list(self.resources)))
        shutil.rmtree(d, ignore_errors=True)
        _WORLD["w"] = self

    # ---- naming -------------------------------------------------------------------------
    def uri(self, k):
        res, _sz, pp, val, suffix = self.keys[k]
        d = []
        if val:
            d.append("validate=val")
        if pp:
            d.append("postprocess=pp")
        u = self.scheme(k) + res + (("<<" + suffix) if suffix else "")
        return (";".join(d) + ":" + u) if d else u

    def scheme(self, k):
        """two remote resources serve the keys (a cache usually has several: https, file, s3 ...); a request may mix them"""
        return "alt://" if self.keys[k][0] in ("c", "e", "h") else "mem://"

    def stripped_uri(self, k):
        return self.scheme(k) + self.keys[k][0]

    def _learn_names(self, cache):
        from ocean_science_utilities.filecache.cache_object import parse_directive
        self.name_of, self.key_of_name = {}, {}
        for k in self.keys:
            uri, _ = parse_directive(self.uri(k))
            n = cache._cache_file_name(uri)
            self.name_of[k] = n
            self.key_of_name[n] = k
        if len(self.key_of_name) != len(self.keys):
            self.name_clash = True
        else:
            self.name_clash = False

    def key_of_path(self, path, strict=False):
        base = os.path.basename(str(path))
        if base in self.key_of_name:
            return self.key_of_name[base]
        if strict:
            return None
        for n, k in self.key_of_name.items():
            if base.startswith(n) or n in base:
                return k
        return None

    def final_path(self, k):
        return os.path.join(self.dir, self.name_of[k])

    # ---- contents -----------------------------------------------------------------------
    def res_bytes(self, k):
        res, sz = self.keys[k][0], self.keys[k][1]
        unit = ("RES:%s:" % res).encode()
        n = sz * 1000
        return (unit * (n // len(unit) + 1))[:n]

    def good_bytes(self, k):
        b = self.res_bytes(k)
        if self.keys[k][2]:
            return b"PP!!" + b[4:]
        return b

    def classify(self, k, path):
        if not os.path.exists(path):
            return "none"
        st = os.stat(path)
        with open(path, "rb") as fp:
            data = fp.read()
        if data == self.good_bytes(k):
            return "good"
        if data[:8] == b"DAMAGED!" and len(data) == len(self.good_bytes(k)):
            return "bad"            # a complete file whose content went bad (see invalidate): full size, must never be served
        if data == self.res_bytes(k):
            return "raw"
        return "partial"

    # ---- the remote side (runs in library worker threads) -----------------------------------
    def _log(self, stage, key, uri=""):
        with self.lock:
            self.rseq += 1
            self.log.append((self.rseq, stage, key, threading.get_ident(), uri))

    def _hook(self, stage, key, path):
        for h in list(self.hooks):
            h(stage, key, path)

    def _download(self, uri, filepath):
        k = self.key_of_path(filepath)
        with self.lock:
            outcome = self.plan.get(k, "ok")
            if isinstance(outcome, list):
                # one outcome per download attempt of this key, in the order in which the attempts start
                outcome = outcome.pop(0) if outcome else "ok"
            self.live_attempts += 1
        try:
            self._log("start", k, uri)
            self._hook("start", k, filepath)
            if outcome == "nf":
                with self.lock:
                    self.failed.add(k)
                    self.faulty = True
                raise self.NotFound("injected not found: %s" % uri)
            if outcome == "io_pre":
                with self.lock:
                    self.failed.add(k)
                    self.faulty = True
                raise InjectedIOError("injected io error before write: %s" % uri)
            data = self.res_bytes(k)
            half = len(data) // 2
            with open(filepath, "wb") as fp:
                fp.write(data[:half])
            stamp(filepath)
            self._log("partial", k)
            self._hook("partial", k, filepath)
            if outcome == "io_mid":
                with self.lock:
                    self.failed.add(k)
                    self.faulty = True
                raise InjectedIOError("injected io error mid write: %s" % uri)
            with open(filepath, "ab") as fp:
                fp.write(data[half:])
            stamp(filepath)
            with self.lock:
                self.rejects.discard(k)       # a fresh copy has been fetched: the validator accepts it again
            self._log("written", k)
            self._hook("written", k, filepath)
            return True
        finally:
            if not self.keys[k][2] or outcome in ("nf", "io_pre", "io_mid"):
                with self.lock:
                    self.live_attempts -= 1

    def _pp(self, filepath):
        k = self.key_of_path(filepath)
        try:
            with self.lock:
                outcome = self.plan.get(k, "ok")
            if outcome == "pp_fail":
                with self.lock:
                    self.failed.add(k)
                    self.faulty = True
                raise InjectedPPError("injected post-processing failure")
            with open(filepath, "r+b") as fp:
                fp.write(b"PP!!")
            stamp(filepath)
            self._log("posted", k)
            self._hook("posted", k, filepath)
            return True
        finally:
            with self.lock:
                self.live_attempts -= 1

    def _val(self, filepath):
        k = self.key_of_path(filepath)
        self._log("validate", k)
        try:
            with open(filepath, "rb") as fp:
                damaged = fp.read(8) == b"DAMAGED!"
        except OSError:
            damaged = True
        if damaged:
            # the validator judges the file it is given (no memory of its own: a new session, or a directory restored from a
            # snapshot, gets the same verdicts); validators may reject by returning False or by raising IOError (unreadable file)
            if k in ("f",) or (k == "b" and len(self.log) % 2 == 0):
                raise IOError("validation failed: cannot read %s" % os.path.basename(str(filepath)))
            return False
        return True

    def on_replace(self, src, dst):
        if os.path.dirname(dst) == self.dir:
            k = self.key_of_path(dst, strict=True)
            if k is not None:
                self.last_commit = k
                self._log("committed", k)
                self._hook("committed", k, dst)

    # ---- projections --------------------------------------------------------------------------
    def project(self):
        files, raw = {}, {}
        for k in self.keys:
            p = self.final_path(k)
            st = self.classify(k, p)
            if st != "none":
                s = os.stat(p)
                # recency of use: the later of the file's own time stamps (touch / download / user access) and the
                # moment the current session last returned the file to a caller
                raw[k] = max(s.st_atime_ns, s.st_mtime_ns, BASE_NS + self.lastuse.get(k, 0) * 10**9 if k in self.lastuse else 0)
            files[k] = {"st": st, "t": 0}
        order = sorted(set(raw.values()))
        for k, v in raw.items():
            files[k]["t"] = order.index(v) + 1
        files["?"] = {"st": "none", "t": 0}
        known = set(self.name_of.values())
        tmp, unknown = 0, 0
        for n in sorted(os.listdir(self.dir)):
            if n in known or n == "file_cache_config.json" or n in self.foreign_names:
                continue
            if n.startswith("cachefile_") and n.endswith("_cachefile"):
                unknown += 1
            else:
                tmp += 1
        c = self.cache
        entries, extra, mx = [], 0, 0
        if c is not None:
            flags = c.in_cache([self.uri(k) for k in self.keys])
            entries = sorted(k for k, b in zip(self.keys, flags) if b)
            extra = len(c) - len(entries)
            mx = int(round(c.config.max_size_bytes / 1000.0))
        fo = self.foreign_state
        if fo != "none":
            fo = "orig"
            for fname in self.foreign_names:
                fpath = os.path.join(self.dir, fname)
                if not os.path.exists(fpath):
                    fo = "deleted"
                    break
                with open(fpath, "rb") as fp:
                    if fp.read() != self.foreign_bytes + fname.encode():
                        fo = "changed"
                        break
        cfg = None
        cpath = os.path.join(self.dir, "file_cache_config.json")
        if os.path.exists(cpath):
            try:
                with open(cpath) as fp:
                    cfg = json.load(fp)
            except Exception:
                cfg = "unparsable"
        return {"open": c is not None, "entries": entries, "files": files, "max": mx,
                "foreign": fo, "unknown": unknown + max(extra, 0), "tmp": tmp,
                "cfg_max": (int(round(cfg["size_gb"] * 1e6)) if isinstance(cfg, dict) else -1),
                # exact sizes in bytes: the size in force and the size a new session would read from the configuration file
                "maxb": (int(c.config.max_size_bytes) if c is not None else 0),
                "cfgb": (int(cfg["size_gb"] * self.co.GIGABYTE) if isinstance(cfg, dict) and "size_gb" in cfg else -1)}

    # ---- public operations ------------------------------------------------------------------------
    def open(self, lim_kb, par, am, evict):
        P = self.project()
        err = None
        try:
            if self.registry:
                World._names[0] += 1
                self.regname = "verif-cache-%d" % World._names[0]
                self.fcmod.create_cache(self.regname, cache_path=self.dir, cache_size_GB=(lim_kb * 1000 + (437 if lim_kb % 300 else 0)) / 1e9,
                                        do_cache_eviction_on_startup=evict, download_in_parallel=par,
                                        resources=list(self.resources))
                c = self.fcmod.get_cache(self.regname)
                c.disable_progress_bar = True
                self.fcmod.set_directive_function("postprocess", "pp", self._pp, cache_name=self.regname)
                self.fcmod.set_directive_function("validate", "val", self._val, cache_name=self.regname)
            else:
                c = self.co.FileCache(self.dir, size_GB=(lim_kb * 1000 + (437 if lim_kb % 300 else 0)) / 1e9,
                                      do_cache_eviction_on_startup=evict, resources=list(self.resources),
                                      parallel=par, allow_for_missing_files=am)
                c.disable_progress_bar = True
                c.set_directive_function("postprocess", "pp", self._pp)
                c.set_directive_function("validate", "val", self._val)
            if not self.name_of:
                self._learn_names(c)
            self.cache = c
        except ValueError as e:
            err = type(e).__name__
            self.cache = None
            if not self.name_of:
                # learn names from a throw-away object on an empty directory
                d = os.path.join(self.root, "names")
                os.makedirs(d, exist_ok=True)
                self._learn_names(self.co.FileCache(d, size_GB=1, resources=list(self.resources)))
                shutil.rmtree(d, ignore_errors=True)
        Q = self.project()
        return {"op": "open", "lim": lim_kb, "par": par, "am": am, "evict": evict,
                "result": "ok" if err is None else "rejected", "P": P, "Q": Q,
                "clean": not self.faulty}

    def get(self, keys, plan=None, single=False):
        c = self.cache
        P = self.project()
        plan_rec = {k: (list(v) if isinstance(v, list) else v) for k, v in (plan or {}).items()}
        with self.lock:
            self.plan = {k: (list(v) if isinstance(v, list) else v) for k, v in (plan or {}).items()}
            self.failed = set()
            mark = len(self.log)
            nozombie = self.live_attempts == 0
        rejected = sorted({k for k in keys if self.keys[k][3] and k in P["entries"] and P["files"][k]["st"] == "bad"})
        result, paths, exc = "ok", [], None
        try:
            arg = self.uri(keys[0]) if (single and len(keys) == 1) else [self.uri(k) for k in keys]
            out = self.fcmod.filepaths(arg, self.regname) if self.registry else c[arg]
            for p in out:
                k = self.key_of_path(p, strict=True)
                if k is not None and os.path.dirname(str(p)) != self.dir:
                    k = None
                paths.append(k if k is not None else "?")
        except BaseException as e:  # noqa
            result, exc = "raised", type(e).__name__
            if isinstance(e, (KeyboardInterrupt, SystemExit)):
                raise
        with self.lock:
            log = self.log[mark:]
            failed = sorted(self.failed)
        if result == "ok":
            now = CLOCK.t
            for k in paths:
                if k != "?":
                    self.lastuse[k] = now
        Q = self.project()
        contacted = sorted({k for (_s, stage, k, _t, _u) in log if stage == "start"})
        wrong_uri = [(k, u) for (_s, stage, k, _t, u) in log
                     if stage == "start" and u != self.stripped_uri(k)]
        return {"op": "get", "keys": list(keys), "plan": plan_rec, "result": result,
                "exc": exc, "paths": paths, "contacted": contacted, "failed": failed,
                "rejected": rejected, "clean": not self.faulty, "nozombie": nozombie,
                "wrong_uri": wrong_uri, "par": bool(c.config.parallel), "P": P, "Q": Q}

    def settle(self, timeout=3.0):
        """best effort: wait until no download attempt of an earlier (raised) request is in flight"""
        t0 = time.time()
        while time.time() - t0 < timeout:
            with self.lock:
                if self.live_attempts == 0:
                    break
            time.sleep(0.002)
        time.sleep(0.01)

    def remove(self, k):
        P = self.project()
        exc = None
        try:
            if self.registry:
                self.fcmod.delete_files(self.uri(k), self.regname, error_if_not_in_cache=False)
            else:
                self.cache.remove(self.uri(k))
        except Exception as e:
            exc = type(e).__name__
        return {"op": "remove", "key": k, "exc": exc, "P": P, "Q": self.project()}

    def purge(self):
        P = self.project()
        exc = None
        try:
            self.cache.purge()
        except Exception as e:
            exc = type(e).__name__
        return {"op": "purge", "exc": exc, "P": P, "Q": self.project()}

    def touch(self, k, mode="both"):
        """the user touches the file (both times), reads it (access time only) or rewrites its metadata (modification time only):
        in every case the file has just been used, its recency is the later of the two times"""
        P = self.project()
        p = self.final_path(k)
        if os.path.exists(p):
            if mode == "both":
                stamp(p)
            else:
                s = os.stat(p)
                t = CLOCK.tick()
                _orig_utime(p, ns=((t, s.st_mtime_ns) if mode == "atime" else (s.st_atime_ns, t)))
        return {"op": "touch", "key": k, "mode": mode, "P": P, "Q": self.project()}

    def invalidate(self, k):
        """the cached copy of k goes bad (what a validation directive exists for): its content is damaged on disk, time stamps kept,
        and the validator rejects the key until a fresh copy has been fetched"""
        P = self.project()
        self.rejects.add(k)
        p = self.final_path(k)
        if os.path.exists(p):
            st = os.stat(p)
            with open(p, "r+b") as fp:
                fp.write(b"DAMAGED!")
            _orig_utime(p, ns=(st.st_atime_ns, st.st_mtime_ns))
        return {"op": "invalidate", "key": k, "P": P, "Q": self.project()}

    def foreign(self):
        P = self.project()
        if self.foreign_state == "none":
            for fname in self.foreign_names:
                with open(os.path.join(self.dir, fname), "wb") as fp:
                    fp.write(self.foreign_bytes + fname.encode())
            self.foreign_state = "orig"
        return {"op": "foreign", "P": P, "Q": self.project()}

    def crash(self, snapshot=None, mid_request=False):
        """Process death: drop the object; continue on `snapshot` (a copy of the directory taken at
        the crash point) if given, else on the directory as it is now."""
        P = self.project()
        self.cache = None
        self.lastuse = {}       # a new process knows only the file times
        if self.registry and self.regname is not None:
            self.fcmod._ACTIVE_FILE_CACHES.pop(self.regname, None)     # the process ends: the registry is gone
            self.regname = None
        if mid_request:
            self.faulty = True      # a clean close / reopen between calls is not a fault
        self.rejects = set()
        if snapshot is not None:
            self.dir = snapshot
        return {"op": "crash", "P": P, "Q": self.project()}

    def snapshot_hook(self, key, stage):
        """returns (hook, holder); the hook copies the directory when (stage,key) is reached"""
        holder = {"dir": None}

        def h(st, k, path):
            if holder["dir"] is None and st == stage and k == key:
                self.gen += 1
                dst = os.path.join(self.root, "cache%d" % self.gen)
                os.makedirs(dst, exist_ok=True)
                # file by file: other pool workers may rename / remove their temporary files while
                # we copy (any per-file combination is a state a kill could leave behind)
                for n in sorted(os.listdir(self.dir)):
                    try:
                        shutil.copy2(os.path.join(self.dir, n), os.path.join(dst, n))
                    except (FileNotFoundError, OSError):
                        pass
                holder["dir"] = dst
        return h, holder

    def close(self):
        if self.registry and self.regname is not None:
            self.fcmod._ACTIVE_FILE_CACHES.pop(self.regname, None)
        _WORLD["w"] = None
        shutil.rmtree(self.root, ignore_errors=True)


def rec_to_trace(hid, seq, r):
    """the ndjson line for one recorded call"""
    d = dict(r)
    d["hid"] = hid
    d["seq"] = seq
    return json.dumps(_nonull(d), sort_keys=True)


def _nonull(x):
    """the TLA+ Json module cannot read null"""
    if x is None:
        return "none"
    if isinstance(x, dict):
        return {k: _nonull(v) for k, v in x.items()}
    if isinstance(x, (list, tuple)):
        return [_nonull(v) for v in x]
    return x
