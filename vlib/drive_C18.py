"""C18 - File cache: contents, hits, size bound and LRU eviction over any request history."""
import json
import os
import random
import shutil

from vlib import common, fcdrive
from vlib import cachedriver as cd

PID = "C18"


def run(tier):
    quick = tier == "quick"
    chk = common.Check(PID, "model_checking", tier)
    rng = random.Random(chk.seed)
    cd.install_patches()
    work = common.scratch_dir("c18")
    try:
        # 1. model checking: the design (as repaired) satisfies every C18/C19 clause -------------
        fcdrive.model_check(chk, "MC_c18_quick.cfg" if quick else "MC_c18_thorough.cfg",
                            "fault-free histories, %s" % ("3 keys, 1 limit" if quick else "4 keys, 2 limits"),
                            600 if quick else 3600)
        # non-vacuity: the code as found (hits never touched) must violate the clauses in the model
        r = fcdrive.model_check(chk, "MC_c18_head.cfg", "head variant", 600, must_hold=False)
        chk.set("nonvacuity_head_variant_violates", r.violated or "NOT VIOLATED")
        if not r.violated:
            chk.machinery("head variant of the model does not violate any clause: model is vacuous")

        # 2. spec -> code: TLC-generated behaviours replayed on the real FileCache ----------------
        trace = fcdrive.Trace(os.path.join(work, "c18.ndjson"), cd.BIG_KEYS)
        n_beh = 150 if quick else 2500
        rg, hists = fcdrive.gen_behaviours("GEN_c18.cfg", n_beh, 30, chk.seed % 100000)
        if not hists:
            chk.machinery("TLC generated no behaviours: %s" % (rg.error or rg.out[-500:]))
        calls, drift, seen = 0, [], set()
        for hid, h in enumerate(hists):
            n, d = fcdrive.replay_history(h, "g%d" % hid, trace, keys=cd.BIG_KEYS)
            calls += n
            drift += d
            seen.add(json.dumps([{k: v for k, v in s.items() if k != "Q"} for s in h], sort_keys=True))
        chk.set("behaviours_replayed", len(hists))
        chk.set("behaviours_distinct", len(seen))
        chk.set("model_conformance_differences", len(drift))
        if drift:
            chk.notes.append("observed projection differs from the model's prediction (informational,"
                             " verdicts come from the property clauses): %s" % json.dumps(drift[:3]))
        if hists:
            chk.sample({"tlc_behaviour": [{k: v for k, v in s.items() if k != "Q"} for s in hists[0][:6]]})

        # 3. code -> spec: long random fault-free histories, both download modes ------------------
        n_rand = 60 if quick else 1500
        for j in range(n_rand):
            calls += fcdrive.random_history(rng, "r%d" % j, trace, 40 if quick else 60, faulty=False)
        trace.close()
        rt, rejected, done = fcdrive.validate_trace(trace.path)
        if done is None or done.get("consumed") != trace.n:
            chk.machinery("trace validation did not consume the whole trace: %s" % (rt.error or rt.out[-800:]))
        chk.add("traces_validated_against_impl", trace.n)
        chk.set("histories", len(hists) + n_rand)
        for rj in rejected:
            rec = trace.index.get((rj["hid"], rj["seq"]))
            chk.violation("trace:%s:%s" % (rj["op"], "+".join(sorted(rj["clauses"]))),
                          "recorded %s call violates clause(s) %s" % (rj["op"], rj["clauses"]),
                          {"history": rj["hid"], "seq": rj["seq"], "record": rec})
        if rejected:
            shutil.copy(trace.path, os.path.join(common.VERIF, "replays", "C18-last-rejected.ndjson"))

        # 4. sequential and parallel modes give the same results --------------------------------
        n_eq = 20 if quick else 400
        for j in range(n_eq):
            prog, lim, diffs = fcdrive.mode_equivalence(rng, 12)
            calls += 2 * len(prog)
            if diffs:
                chk.violation("modeequiv:%s" % json.dumps(diffs[0], default=str)[:60],
                              "sequential and parallel download modes give different results",
                              {"program": prog, "limit_kb": lim, "diff": diffs})
        chk.set("mode_equivalence_programs", n_eq)

        # 5. naming: distinct URIs never share a file ----------------------------------------------
        w = cd.World(cd.BIG_KEYS)
        try:
            w.open(2250, False, True, False)
            if w.name_clash:
                chk.violation("naming:clash", "two distinct URIs map to the same cache file name",
                              {"names": w.name_of})
        finally:
            w.close()

        # 5b. the registry of named caches: unique names, unique paths, default cache on demand ----------
        from ocean_science_utilities.filecache import filecache as fcmod
        d1, d2 = os.path.join(work, "reg1"), os.path.join(work, "reg2")
        w0 = cd.World(cd.DEFAULT_KEYS)
        try:
            fcmod.create_cache("verif-reg-a", cache_path=d1, cache_size_GB=0.001, resources=[w0.resource])
            for nm, path, why in (("verif-reg-a", d2, "a second cache under an existing name"), ("verif-reg-b", d1, "a second cache on a path that is in use")):
                try:
                    fcmod.create_cache(nm, cache_path=path, cache_size_GB=0.001, resources=[w0.resource])
                    chk.violation("registry:%s" % nm, "create_cache accepted %s (two caches would share files)" % why, {"name": nm, "path": path})
                    fcmod._ACTIVE_FILE_CACHES.pop("verif-reg-b", None)
                except ValueError:
                    pass
            if not fcmod.exists("verif-reg-a") or fcmod.exists("verif-reg-zzz"):
                chk.violation("registry:exists", "exists() does not reflect the created caches", {})
            fcmod.delete_cache("verif-reg-a")
            if fcmod.exists("verif-reg-a"):
                chk.violation("registry:delete", "delete_cache left the cache registered", {})
            calls += 5
        finally:
            fcmod._ACTIVE_FILE_CACHES.pop("verif-reg-a", None)
            fcmod._ACTIVE_FILE_CACHES.pop("verif-reg-b", None)
            w0.close()

        # 6. binding demonstration: a corrupted trace must be rejected -----------------------------
        demo = binding_demo(work, trace.path)
        chk.set("binding_demo", demo)
        if not demo.get("corrupted_rejected"):
            chk.machinery("binding demonstration failed: a corrupted trace was accepted")

        chk.set("evaluations", calls)
        chk.set("distinct_nontrivial", len(seen) + n_rand)
        chk.sample({"trace_records": trace.n, "rejected": len(rejected)})
        chk.assume("logical clock: two operations never share a file timestamp (harness stamps every "
                   "write and touch with a strictly increasing logical time far in the future)")
        chk.assume("file sizes are multiples of 300 kB and limits are multiples of 300 kB plus 150 kB, so "
                   "the +-1 byte rounding of int(size_gb*1e9) can never change a comparison")
        chk.assume("fault-free histories only (faults, crashes, abandoned workers are C19)")
        return chk.finish(rule="TLC explores every interleaving of the model's actions (stamps up to order "
                               "isomorphism); behaviours = TLC -simulate on FileCacheGen replayed call by call; "
                               "random histories of 40-60 public calls over 9 keys; distinct = distinct stimulus "
                               "sequences (TLC behaviours) + random histories (each seeded differently)")
    finally:
        shutil.rmtree(work, ignore_errors=True)


def binding_demo(work, trace_path):
    """corrupt one recorded field: flip the content class of a served file to 'partial'"""
    out = os.path.join(work, "corrupt.ndjson")
    done = False
    with open(trace_path) as fi, open(out, "w") as fo:
        for line in fi:
            if not done and '"op": "get"' in line and '"result": "ok"' in line:
                d = json.loads(line)
                if d["paths"] and d["paths"][0] != "?":
                    d["Q"]["files"][d["paths"][0]]["st"] = "partial"
                    line = json.dumps(d, sort_keys=True) + "\n"
                    done = True
            fo.write(line)
            if done:
                break
    if not done:
        return {"corrupted_rejected": False, "why": "no record to corrupt"}
    r, rejected, dn = fcdrive.validate_trace(out)
    return {"corrupted_rejected": any("ServedExistsAndEqual" in x["clauses"] for x in rejected),
            "field": "Q.files[first returned key].st := partial"}


def replay(path):
    return fcdrive.replay_file(path)
