"""Histories of ONE spectrum object (SpectrumSession.tla) replayed on real objects of any kind, with the *freshness
relation* as oracle: after any history of queries and in-place operations a query on the object must equal the same
query on a brand-new object built from a deep copy of the object's current data.  Used by the properties whose
reference semantics is not the 1-D moment reference of Spectrum1D.tla (C02, C03, C12); C01 / C04 compare with the
reference values carried in the behaviour (spec1d_common.session_replay)."""
import math

from vlib import spec1d_common as sc


def build_1d(ses, rng, layout, scale=0.125):
    """1-D spectrum with directional moments that turn with frequency; batch of two members (second: 3 x)"""
    import numpy as np
    from ocean_science_utilities.wavespectra.spectrum import create_1d_spectrum
    f = np.array(ses["f"], dtype="float64") * scale
    nf = len(f)
    e = np.array([np.nan if m else float(v) for v, m in zip(ses["e"], ses["nan"])])
    ang = np.radians(40.0 + 55.0 * np.arange(nf))
    r1, r2 = 0.3 + 0.5 * (np.arange(nf) % 2), 0.2 + 0.1 * np.arange(nf) / max(nf, 1)
    mom = [r1 * np.cos(ang), r1 * np.sin(ang), r2 * np.cos(2 * ang), r2 * np.sin(2 * ang)]
    if layout == "scalar":
        E, M = e, mom
        time, lat, lon, dep, dims = 0, 1.0, 2.0, np.inf, ("frequency",)
    else:
        E = np.stack([e, 3.0 * e])
        M = [np.stack([m, m[::-1]]) for m in mom]
        time, lat, lon, dep, dims = np.arange(2) * 3600, np.arange(2) * 1.0, np.arange(2) * 2.0, np.array([np.inf, 30.0]), ("time", "frequency")
    return create_1d_spectrum(f, E, time, lat, lon, a1=M[0], b1=M[1], a2=M[2], b2=M[3], depth=dep, dims=dims)


def build_2d(ses, rng, layout, scale=0.125, ndir=8, start=0.0):
    """2-D spectrum: e(f) of the behaviour spread over a direction lobe that turns with frequency; a missing value of
    the behaviour becomes a NaN bin at one direction of that frequency"""
    import numpy as np
    from ocean_science_utilities.wavespectra.spectrum import create_2d_spectrum
    f = np.array(ses["f"], dtype="float64") * scale
    nf = len(f)
    dirs = start + np.arange(ndir) * 360.0 / ndir
    D = np.zeros((nf, ndir))
    for j in range(nf):
        lobe = 1.0 + np.cos(np.radians(dirs - (40.0 + 55.0 * j))) + 0.3 * np.cos(np.radians(2 * (dirs - 10.0 * j)))
        lobe = lobe / (np.sum(lobe) * 360.0 / ndir)
        D[j] = float(ses["e"][j]) * lobe
        if ses["nan"][j]:
            D[j, (3 * j + 1) % ndir] = np.nan
    if layout == "scalar":
        V, time, lat, lon, dep, dims = D, 0, 1.0, 2.0, np.inf, ("frequency", "direction")
    else:
        V = np.stack([D, 3.0 * D[:, ::-1]])
        time, lat, lon, dep, dims = np.arange(2) * 3600, np.arange(2) * 1.0, np.arange(2) * 2.0, np.array([np.inf, 30.0]), ("time", "frequency", "direction")
    return create_2d_spectrum(f, dirs, V, time, lat, lon, dims=dims, depth=dep)


def fresh(s):
    """a brand-new object holding a deep copy of the current data"""
    return type(s)(s.dataset.copy(deep=True))


def apply_op(s, op):
    import numpy as np
    if op["op"] == "scale":
        s.multiply(np.array(op["c"], dtype="float64"), ["frequency"], inplace=True)
    elif op["op"] == "assign_rev":
        var = s.dataset["variance_density"]
        ax = list(var.dims).index("frequency")
        s["variance_density"] = (var.dims, np.flip(var.values, axis=ax).copy())
    elif op["op"] == "fillna":
        s.fillna(0.0)
    elif op["op"] == "copy":
        s = s.copy(deep=True)
    return s


def same(a, b, rtol=1e-11):
    import numpy as np
    import xarray
    if isinstance(a, xarray.Dataset):
        return all(same(a[k], b[k], rtol) for k in a.data_vars)
    if hasattr(a, "values"):
        a, b = a.values, b.values
    a, b = np.asarray(a, dtype="float64"), np.asarray(b, dtype="float64")
    return a.shape == b.shape and bool(np.allclose(a, b, rtol=rtol, atol=1e-300, equal_nan=True))


def freshness_replay(chk, sessions, rng, builders, queries, label, scale=0.125):
    """builders: list of (name, fn(ses, rng, layout) -> spectrum); queries: list of (name, fn(spec, fmin, fmax) -> array-like).
    Returns (replayed histories, compared queries)."""
    import numpy as np
    replayed = compared = 0
    for ses in sessions:
        bname, build = rng.choice(builders)
        layout = rng.choice(["scalar", "time"])
        ctx = {"f": ses["f"], "e": ses["e"], "nan": ses["nan"], "object": bname, "layout": layout}
        try:
            s = build(ses, rng, layout)
        except Exception as e:
            chk.violation("raise:build:%s" % type(e).__name__, "building the spectrum raised", dict(ctx, error=str(e)[:300]))
            continue
        done = []
        broken = False
        for op in ses["hist"]:
            done.append({k: v for k, v in op.items() if k not in ("m", "pk")})
            if op["op"] != "query":
                try:
                    s = apply_op(s, op)
                except Exception as e:
                    chk.violation("raise:session:%s:%s" % (op["op"], type(e).__name__), "operation %s raised %s in a history" % (op["op"], type(e).__name__),
                                  dict(ctx, history=done, error=str(e)[:300]))
                    broken = True
                continue
            fmin, fmax = sc.band_of(op, scale)
            ref = fresh(s)
            before = {str(k): np.array(v.values, copy=True) for k, v in s.dataset.variables.items()}
            for qname, q in queries:
                with np.errstate(all="ignore"):
                    try:
                        a = q(s, fmin, fmax)
                        err_a = None
                    except Exception as e:          # both must behave alike: a query that fails on the fresh object may fail here too
                        a, err_a = None, type(e).__name__
                    try:
                        b = q(ref, fmin, fmax)
                        err_b = None
                    except Exception as e:
                        b, err_b = None, type(e).__name__
                compared += 1
                if err_a != err_b or (err_a is None and not same(a, b)):
                    chk.violation("session:%s:%s:%s" % (label, qname, "-".join(d["op"] for d in done)),
                                  "after a history of queries and in-place operations, %s of the object differs from %s of a new object holding the same data" % (qname, qname),
                                  dict(ctx, history=done, band=[fmin, fmax if math.isfinite(fmax) else "inf"],
                                       on_object=(err_a or np.asarray(getattr(a, "values", a) if not hasattr(a, "data_vars") else a[list(a.data_vars)[0]].values).tolist()),
                                       on_new_object=(err_b or np.asarray(getattr(b, "values", b) if not hasattr(b, "data_vars") else b[list(b.data_vars)[0]].values).tolist())))
                    broken = True
                    break
            if not broken:
                # a query is pure (SpectrumSession.tla: Query leaves the object's values unchanged)
                for k, v in s.dataset.variables.items():
                    b = before.get(str(k))
                    a = np.asarray(v.values)
                    same_ = b is not None and a.shape == b.shape and (np.array_equal(a, b) if a.dtype.kind in "MmOUS" else np.array_equal(a, b, equal_nan=True))
                    if not same_:
                        chk.violation("session:%s:query-modifies-object:%s" % (label, k),
                                      "asking for a parameter changed the variable %s of the spectrum object (a query must leave the object as it is)" % k,
                                      dict(ctx, history=done, band=[fmin, fmax if math.isfinite(fmax) else "inf"]))
                        broken = True
                        break
            if broken:
                break
        replayed += 1
    return replayed, compared
