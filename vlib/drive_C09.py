"""C09 - Source terms, roughness and stress are invariant under joint rotation."""
import math
import random

from vlib import common
from vlib import phys_common as pc

PID = "C09"


def adiff(a, b):
    import numpy as np
    return np.abs((np.asarray(a) - np.asarray(b) + 180.0) % 360.0 - 180.0)


def run(tier):
    quick = tier == "quick"
    chk = common.Check(PID, "exploration", tier)
    rng = random.Random(chk.seed + 9)
    common.setup_numba_cache()
    import numpy as np
    from ocean_science_utilities.wavephysics.balance.factory import create_balance
    from ocean_science_utilities.wavephysics.windestimate import estimate_u10_from_source_terms
    evals, distinct = 0, set()
    f = pc.freq()
    bal_default = create_balance("st4", "st4")
    bal_tuned = create_balance("st4", "st4")
    # a non-default parameter set (C08 quantifies over parameter sets; C09 over C08's spectra and winds)
    bal_tuned.update_parameters({"saturation_breaking_directional_control": 0.3, "viscous_stress_parameter": 0.11})
    settings = [("default", bal_default, False, [(16, 4), (24, 8), (36, 4)] if quick else [(16, 32), (24, 48), (36, 72)]),
                ("tuned parameters", bal_tuned, False, [(24, 4)] if quick else [(16, 32), (24, 48), (36, 72)]),
                ("direction iteration, crossing sea", bal_default, True, [(24, 5)] if quick else [(16, 32), (24, 48), (36, 72)]),
                # an axis that does not start at 0 (bin centres at half steps) and a non-uniform frequency axis with at least as many
                # frequencies as directions
                ("bin-centred directions, logarithmic frequencies", bal_default, False, [(16, 5), (36, 5)] if quick else [(16, 32), (24, 48), (36, 72)])]
    f_uniform = f
    f_log = 0.04 * (1.0 / 0.04) ** (np.arange(len(f)) / (len(f) - 1.0))
    for label, bal, diriter, plan in settings:
      centred = label.startswith("bin-centred")
      f = f_log if centred else f_uniform
      for N, nsel in plan:
          els = common.symmetry_elements(chk, N, 1 if centred else 0)
          delta = 360.0 / N
          dirs = (np.arange(N) + (0.5 if centred else 0.0)) * delta
          B = 2
          vds, winds, wdirs, depths = [], [], [], []
          for b in range(B):
              md = rng.uniform(0, 360)
              vds.append(pc.sea(f, dirs, rng.uniform(0.12, 0.22), rng.uniform(2.0, 4.5), md, rng.uniform(25, 45)) +
                         (pc.sea(f, dirs, 0.07, 1.0, rng.uniform(0, 360), 15) if b else 0.0))
              if diriter:
                  # a young bimodal wind sea on top: the first direction update is a large step
                  side = rng.choice([-120.0, 120.0])
                  vds[-1] = pc.sea(f, dirs, 0.1, 3.0, md, 30) + pc.sea(f, dirs, 0.25, 0.85, md, 25) + pc.sea(f, dirs, 0.25, 0.85, md + side, 25)
              winds.append(rng.uniform(6, 25))
              wdirs.append((md + rng.uniform(-40, 40)) % 360)
              depths.append(rng.choice([np.inf, 40.0]))

          def evaluate(vd_list, wd_list):
              spec = pc.spectrum(f, dirs, vd_list, depths)
              U, W = pc.da(winds), pc.da(wd_list)
              z0 = bal.generation.roughness(U, W, spec)
              out = {"gin": bal.generation.rate(spec, U, W, roughness_length=z0).values, "dis": bal.dissipation.rate(spec).values,
                     "gbulk": bal.generation.bulk_rate(spec, U, W, roughness_length=z0).values, "dbulk": bal.dissipation.bulk_rate(spec).values,
                     "z0": z0.values}
              st = bal.generation.stress(spec, U, W, roughness_length=z0)
              out["stress"], out["stress_dir"] = st["stress"].values, st["direction"].values
              out["diss_dir"] = bal.dissipation.mean_direction_degrees(spec).values
              inv = estimate_u10_from_source_terms(spec, bal, direction_iteration=diriter)
              out["u10"], out["u10_dir"] = inv["u10"].values, inv["direction"].values
              return out
          try:
              base = evaluate(vds, wdirs)
          except Exception as e:
              chk.violation("raise:%s" % type(e).__name__, "source term / stress / inversion raised %s" % type(e).__name__, {"setting": label, "N": N, "error": str(e)[:300]})
              continue
          evals += 1
          sel = rng.sample(els, min(nsel, len(els)))
          if diriter:
              # the under-relaxed direction update has a seam only for the one or two rotations that put 0/360 between the old and
              # the new direction estimate: take every rotation
              sel = [e for e in els if e["s"] == 1] + [e for e in sel if e["s"] == -1]
          # always include a seam-crossing rotation and the plain mirror
          for must in [e for e in els if (e["k"], e["s"]) in ((N - 1, 1), (0, -1), (1, -1))]:
              if must not in sel:
                  sel.append(must)
          for el in sel:
              perm = np.array(el["perm"])
              shift = el["shift"][0] / el["shift"][1]
              sgn = el["s"]
              vd2 = [np.asarray(v)[:, perm] for v in vds]
              wd2 = [(sgn * w + shift) % 360 for w in wdirs]
              ctx = {"setting": label, "N": N, "k": el["k"], "s": sgn, "wind": winds, "wind_dir": wdirs}
              try:
                  rot = evaluate(vd2, wd2)
              except Exception as e:
                  chk.violation("raise:rotated:%s" % type(e).__name__, "evaluation raised after rotation", dict(ctx, error=str(e)[:300]))
                  continue
              evals += 1
              distinct.add((label, N, el["k"], sgn))
              for name in ("gin", "dis"):
                  want = base[name][:, :, perm]
                  if not np.allclose(rot[name], want, rtol=1e-6, atol=1e-9 * float(np.max(np.abs(want)))):
                      chk.violation("field:%s" % name, "spectral %s field is not rotated / mirrored with the spectrum and the wind" % name,
                                    dict(ctx, max_abs_diff=float(np.max(np.abs(rot[name] - want))), scale=float(np.max(np.abs(want)))))
              # tolerances: the roughness iteration stops at 1e-6 in log z0, the wind inversion at a step of 0.01 m/s; an
              # iteration count that differs by one between the two runs may move the result by that much
              for name, rtol, atol in (("gbulk", 1e-5, 0.0), ("dbulk", 1e-9, 0.0), ("z0", 1e-5, 0.0), ("stress", 1e-5, 0.0), ("u10", 1e-6, 5e-3)):
                  if not np.allclose(rot[name], base[name], rtol=rtol, atol=atol, equal_nan=True):
                      chk.violation("invariant:%s" % name, "%s changes under joint rotation / mirroring" % name,
                                    dict(ctx, before=base[name].tolist(), after=rot[name].tolist()))
              for name in ("stress_dir", "diss_dir", "u10_dir"):
                  want = (sgn * base[name] + shift) % 360
                  if np.nanmax(adiff(rot[name], want)) > 1e-3:
                      chk.violation("direction:%s" % name, "%s is not mapped by the rotation / mirror" % name,
                                    dict(ctx, before=base[name].tolist(), after=rot[name].tolist(), expected=want.tolist()))
              if np.any(~np.isfinite(rot["u10"])) and np.all(np.isfinite(base["u10"])):
                  chk.violation("u10-missing", "estimated wind speed becomes missing after rotation", ctx)
    chk.set("evaluations", evals)
    chk.set("distinct_nontrivial", len(distinct))
    chk.assume("Symmetry.tla supplies the group elements, the bin permutation and the angle map; closeness is relative 2e-6 (the roughness Newton "
               "iteration stops at 1e-6 in log z0) and 1e-3 degrees for directions")
    return chk.finish(rule="wind seas and sea+swell mixtures with winds within 40 degrees of the waves; sampled (quick) / all (thorough) group elements "
                           "for N in {16,24,36} incl. seam-crossing rotations and mirrors; distinct = distinct (N, k, s)")


def replay(path):
    with open(path) as fp:
        print(fp.read()[:4000])
    return 0
