"""C16 - Synthetic time series carry the spectrum's variance and are reproducible."""
import hashlib
import json
import math
import os
import random
import shutil

from vlib import common

PID = "C16"


def run(tier):
    quick = tier == "quick"
    chk = common.Check(PID, "exploration", tier)
    rng = random.Random(chk.seed + 16)
    common.setup_numba_cache()
    import numpy as np
    from ocean_science_utilities.wavespectra import timeseries as TS
    from ocean_science_utilities.wavespectra.spectrum import create_1d_spectrum, create_2d_spectrum
    work = common.scratch_dir("c16")
    evals, distinct = 0, set()
    try:
        r = common.run_tlc("DFTLen", "DFTLen.cfg", workers=1, timeout=600)
        chk.tlc(r, "signal lengths 8..80: samples returned by the real inverse FFT = points of the time axis = 2*floor(L/2); last bin = Nyquist")
        if r.violated:
            chk.violation("model:%s" % r.violated, "DFTLen design violates %s" % r.violated, {"tlc": r.out[-800:]})
        elif not r.ok:
            chk.machinery("TLC failed on DFTLen: %s" % r.error)
        rh = common.run_tlc("DFTLen", "DFTLen_head.cfg", workers=1, timeout=600)
        chk.set("nonvacuity_head_design_violates", rh.violated or "NOT VIOLATED")
        if not rh.violated:
            chk.machinery("DFTLen: the design as found (nfft/2 bins) is not rejected")
        cases = [json.loads(p) for p in r.prints]
        chk.sample({"emitted_case": cases[5] if len(cases) > 5 else cases})

        def spec1d(shape_seed, scale=1.0, fmax=None, grid=None):
            rr = random.Random(shape_seed)
            nf = rr.randint(12, 40)
            top = rr.uniform(0.4, 1.2)
            if fmax is not None:
                top = min(top, fmax)
            f = np.linspace(0.0, top, nf)
            fp, wd = rr.uniform(0.2, 0.6) * top, rr.uniform(0.05, 0.2) * top
            noise = np.array([rr.random() for _ in f])
            if grid is not None:
                # the spectrum is given on the caller's grid (e.g. exactly the Fourier grid of the series asked for): same shape, no
                # energy above `top`
                noise = np.interp(grid, f, noise, right=0.0)
                f, nf = np.array(grid, dtype="float64"), len(grid)
                E = scale * np.where(f <= top, np.exp(-((f - fp) / wd) ** 2) + 0.2 * noise, 0.0)
            else:
                E = scale * (np.exp(-((f - fp) / wd) ** 2) + 0.2 * noise)
            return create_1d_spectrum(f, E, 0, 0.0, 0.0, a1=np.full(nf, 0.5), b1=np.full(nf, 0.3), a2=np.zeros(nf), b2=np.zeros(nf),
                                      depth=np.inf, dims=("frequency",))

        def spec2d(shape_seed, dbin, nd=12, scale=1.0, fmax=None, grid=None):
            s1 = spec1d(shape_seed, scale, fmax, grid)
            d = np.arange(nd) * 360.0 / nd + 7.0
            D = np.zeros((len(s1.frequency), nd))
            D[:, dbin] = s1.variance_density.values / (360.0 / nd)
            return create_2d_spectrum(s1.frequency.values, d, D, 0, 0.0, 0.0, dims=("frequency", "direction"), depth=np.inf), math.radians(d[dbin])

        # requested frequencies are recorded by wrapping the public create_fourier_amplitudes (observation only)
        seen_freqs = {}
        orig = TS.create_fourier_amplitudes

        def spy(component, spectrum, frequencies, seed=None):
            seen_freqs["f"] = np.array(frequencies, dtype="float64")
            return orig(component, spectrum, frequencies, seed)
        TS.create_fourier_amplitudes = spy
        try:
            # 1. lengths and spacing for every L the spec enumerated (spec -> code)
            for c in cases if not quick else cases[::2]:
                L = c["L"]
                fs = rng.choice([0.5, 1.0, 2.5, 4.0, 10.0])
                s = spec1d(L)
                try:
                    t, z = TS.surface_timeseries("z", fs, L, s, seed=L)
                except Exception as e:
                    chk.violation("raise:%s" % type(e).__name__, "surface_timeseries raised %s" % type(e).__name__, {"L": L, "fs": fs, "error": str(e)[:300]})
                    continue
                evals += 1
                fr = seen_freqs.get("f")
                ok = len(t) == len(z) == c["nfft"] and abs((t[1] - t[0]) * fs - 1.0) < 1e-12 and abs(t[0]) == 0.0
                okf = fr is not None and len(fr) == c["bins"] and np.allclose(fr, np.arange(c["bins"]) * fs / c["nfft"], rtol=1e-12, atol=1e-15)
                if not ok:
                    chk.violation("length-spacing", "series and time axis differ in length / spacing is not 1/fs",
                                  {"L": L, "fs": fs, "len_time": len(t), "len_series": len(z), "expected": c["nfft"], "dt": float(t[1] - t[0])})
                if not okf:
                    chk.violation("frequency-grid", "the Fourier bins requested are not k*fs/nfft, k=0..nfft/2",
                                  {"L": L, "fs": fs, "n_requested": None if fr is None else len(fr), "expected_bins": c["bins"]})
                distinct.add(("len", L, fs))
        finally:
            TS.create_fourier_amplitudes = orig

        # 2. variance identities (float), all six components, 1D and single-direction 2D ---------------------------------
        for j in range(25 if quick else 400):
            L = rng.choice([8, 9, 16, 33, 64, 257, 1000, 2000] + ([20000] if not quick else []))
            fs = rng.choice([0.5, 1.0, 2.5, 10.0])
            nfft = 2 * (L // 2)
            kind = ["2d", "1d"][j % 2] if j < 8 else rng.choice(["1d", "2d"])
            seed = rng.randrange(0, 2 ** 32)
            fmx = 0.45 * fs      # band limited below the Nyquist frequency
            dbin = [11, 0, rng.randrange(12)][j % 3]        # the last and the first direction bin are always among the cases
            # every third spectrum is given on exactly the Fourier grid of the series (no interpolation needed inside the library)
            ongrid = np.linspace(0, 0.5 * fs, nfft // 2 + 1) if j % 3 == 0 else None
            if kind == "1d":
                s, theta = spec1d(j + 1000, fmax=fmx, grid=ongrid), 0.0
            else:
                s, theta = spec2d(j + 1000, dbin, fmax=fmx, grid=ongrid)
            freqs = np.arange(nfft // 2 + 1) * fs / nfft
            rs = s.interpolate_frequency(freqs)
            if kind == "1d":
                Ek = rs.variance_density.values
            else:
                Ek = (rs.variance_density * rs.direction_step).sum("direction").values
            df = rs.frequency_step.values
            if Ek[-1] * df[-1] > 1e-12 * max(1e-30, float(np.sum(Ek * df))):
                continue    # energy in the Nyquist bin: outside the quantifier
            om = 2 * np.pi * freqs
            inner = slice(1, len(freqs) - 1)
            vz = float(np.sum(Ek[inner] * df[inner]))
            vw = float(np.sum(om[inner] ** 2 * Ek[inner] * df[inner]))
            exp = {"z": vz, "w": vw, "x": vz * math.cos(theta) ** 2, "y": vz * math.sin(theta) ** 2,
                   "u": vw * math.cos(theta) ** 2, "v": vw * math.sin(theta) ** 2}
            ctx = {"L": L, "fs": fs, "kind": kind, "theta_deg": math.degrees(theta), "seed": seed, "spectrum_seed": j + 1000}
            for comp in ("z", "w", "x", "y", "u", "v"):
                try:
                    t, x = TS.surface_timeseries(comp, fs, L, s, seed=seed)
                except Exception as e:
                    chk.violation("raise:%s:%s" % (comp, type(e).__name__), "surface_timeseries(%s) raised" % comp, dict(ctx, error=str(e)[:300]))
                    break
                evals += 1
                got = float(np.var(x))
                if abs(got - exp[comp]) > 1e-9 * max(exp["z" if comp in "zxy" else "w"], 1e-30):
                    chk.violation("variance:%s:%s" % (comp, kind), "sample variance of component %s is not the spectral variance" % comp,
                                  dict(ctx, component=comp, got=got, expected=exp[comp]))
                    break
            # scaling the spectrum by c scales the series by sqrt(c)
            cst = rng.choice([rng.uniform(0.2, 7.0), 2.0 ** -20, 2.0 ** -36])      # also very small seas (exact powers of two)
            s2 = spec1d(j + 1000, cst, fmx, ongrid) if kind == "1d" else spec2d(j + 1000, dbin, scale=cst, fmax=fmx, grid=ongrid)[0]
            # (the reference series is made from a NEW object: asking the same object again is the subject of section 3)
            s = spec1d(j + 1000, 1.0, fmx, ongrid) if kind == "1d" else spec2d(j + 1000, dbin, fmax=fmx, grid=ongrid)[0]
            _, za = TS.surface_timeseries("z", fs, L, s, seed=seed)
            _, zb = TS.surface_timeseries("z", fs, L, s2, seed=seed)
            evals += 2
            if not np.allclose(zb, math.sqrt(cst) * za, rtol=1e-9, atol=1e-12 * max(1.0, float(np.max(np.abs(za))))):
                chk.violation("scaling", "scaling the spectrum by c does not scale the series by sqrt(c)", dict(ctx, c=cst))
            distinct.add(("var", L, fs, kind, j))

        # 3. reproducibility: a call history validated by DFTLenTrace (code -> spec) ---------------------------------------------
        path = os.path.join(work, "c16.ndjson")
        recs = {}
        keys = [("z", 2.5, 64, 1), ("w", 1.0, 33, 2), ("x", 10.0, 100, 3), ("z", 0.5, 9, 1)]
        # (the same values also as numpy integers: a seed read from an array or produced by numpy arithmetic is the same seed)
        seeds = [0, 1, 7, 2 ** 32 - 1, 123456789, np.int64(7), np.uint32(123456789), np.int64(0)]
        held = {}
        with open(path, "w") as fp:
            for j in range(60 if quick else 600):
                comp, fs, L, sid = rng.choice(keys)
                seed = rng.choice(seeds)
                # the SAME spectrum object is asked again and again (sid 3: a 2D spectrum on exactly the Fourier grid of its series)
                if sid not in held:
                    held[sid] = spec1d(sid) if sid != 3 else spec2d(3, 4, fmax=4.5, grid=np.linspace(0, 5.0, 51))[0]
                s = held[sid]
                t, x = TS.surface_timeseries(comp, fs, L, s, seed=seed)
                evals += 1
                rec = {"id": j, "key": "%s|%s|%s|%s" % (comp, fs, L, sid), "seed": str(seed), "L": L, "n": int(len(x)), "nt": int(len(t)),
                       "dt1000": int(round((t[1] - t[0]) * fs * 1000)), "dig": hashlib.sha1(np.ascontiguousarray(x).tobytes()).hexdigest()[:16]}
                recs[j] = rec
                fp.write(json.dumps(rec) + "\n")
        rt = common.run_tlc("DFTLenTrace", "DFTLenTrace.cfg", workers=1, timeout=1800, env={"TRACE_FILE": path})
        done = None
        for p in rt.prints:
            d = json.loads(p)
            if d.get("done"):
                done = d
                continue
            chk.violation("trace:%s" % "+".join(d["clauses"]), "recorded call violates %s" % d["clauses"], {"record": recs[d["id"]]})
        if done is None or done["consumed"] != len(recs):
            chk.machinery("DFTLenTrace did not consume the trace: %s" % (rt.error or rt.out[-500:]))
        chk.set("traces_validated_against_impl", len(recs))
        demo = os.path.join(work, "demo.ndjson")
        with open(demo, "w") as fp:
            fp.write(json.dumps({"id": 0, "key": "k", "seed": "1", "L": 8, "n": 8, "nt": 8, "dt1000": 1000, "dig": "aa"}) + "\n")
            fp.write(json.dumps({"id": 1, "key": "k", "seed": "1", "L": 8, "n": 8, "nt": 8, "dt1000": 1000, "dig": "bb"}) + "\n")
        rd = common.run_tlc("DFTLenTrace", "DFTLenTrace.cfg", workers=1, timeout=300, env={"TRACE_FILE": demo})
        okdemo = any("NotReproducible" in p for p in rd.prints)
        chk.set("binding_demo", {"corrupted_rejected": okdemo})
        if not okdemo:
            chk.machinery("binding demonstration failed")
        chk.set("evaluations", evals)
        chk.set("distinct_nontrivial", len(distinct))
        chk.assume("variance identities are judged only for spectra without energy in the Nyquist bin of the resampled spectrum; 1e-9 relative tolerance")
        chk.assume("the specification decides lengths, spacing, bin bookkeeping and reproducibility over call histories; the variance / scaling identities are float comparisons")
        return chk.finish(rule="TLC enumerates L = 8..80 (lengths, bins); random (L, fs, spectrum shape, component, seed) for the variance identities; "
                               "a recorded call history for reproducibility; distinct = distinct (L, fs) length cases + variance configurations")
    finally:
        shutil.rmtree(work, ignore_errors=True)


def replay(path):
    with open(path) as fp:
        print(fp.read()[:4000])
    return 0
