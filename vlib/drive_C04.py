"""C04 - Peak parameters locate the maximum of e(f) inside the requested band."""
import json
import math
import os
import random
import shutil

from vlib import common
from vlib import spec1d_common as sc

PID = "C04"
G = 9.81


def run(tier):
    quick = tier == "quick"
    chk = common.Check(PID, "model_checking", tier)
    rng = random.Random(chk.seed + 4)
    common.setup_numba_cache()
    import numpy as np
    work = common.scratch_dir("c04")
    evals, nontrivial = 0, 0
    try:
        sc.tlc_laws(chk, quick)
        cases = sc.tlc_cases(chk, quick)
        if not cases:
            chk.machinery("TLC emitted no cases")
        # only spectra that are not missing everywhere (an all-missing member makes argmax raise for the batch:
        # outside the property's quantifier)
        cases = [c for c in cases if not all(c["nan"])]
        chk.set("emitted_cases", len(cases))
        if cases:
            c = cases[len(cases) // 2]
            chk.sample({"emitted_case": {"f": c["f"], "e": c["e"], "nan": c["nan"],
                                         "bands": [{k: b[k] for k in ("lo2", "hi2", "pk")} for b in c["bands"][:4]]}})
        groups = sc.groups(cases, 3, rng)
        if quick:
            groups = rng.sample(groups, min(len(groups), 260))

        def moments(j):   # a distinct direction and spread per frequency bin: a wrong index is visible
            th = math.radians(10.0 * (j + 1))
            r = 1.0 - 0.05 * (j + 1)
            return (r * math.cos(th), r * math.sin(th), 0.0, 0.0)

        depths = [np.inf, 5.0, 50.0, np.nan, 0.7]
        for g in groups:
            layout = rng.choice(["scalar", "time", "time_lat", "flat"])
            kind = rng.choice(["1d", "1d", "2d", "2dnu"])
            scale = rng.choice([1.0, 0.125])
            batch = g[:1] if layout == "scalar" else g
            dsel = [rng.choice(depths) for _ in batch]
            escale = rng.choice([1.0, 1.0, 2.0 ** -36, 2.0 ** 10])      # the level of the spectrum (exact scaling): selection must not depend on it
            ctx = {"f": batch[0]["f"], "layout": layout, "kind": kind, "frequency_scale": scale, "energy_scale": escale}
            try:
                s = sc.build(batch, layout, kind, scale, moments=moments, depth=lambda i: dsel[i], escale=escale)
            except Exception as e:
                chk.violation("raise:build:%s" % type(e).__name__, "building the spectrum raised", dict(ctx, error=str(e)[:300]))
                continue
            nb = len(batch[0]["bands"])
            for bi in rng.sample(range(nb), min(nb, 4 if quick else 8)):
                fmin, fmax = sc.band_of(batch[0]["bands"][bi], scale)
                # a batch member whose in-band values are all missing makes the library raise: not judged
                if any(all(c["nan"][j] or not (2 * c["f"][j] >= c["bands"][bi]["lo2"] and
                                               (c["bands"][bi]["hi2"] == sc.INF2 or 2 * c["f"][j] < c["bands"][bi]["hi2"]))
                           for j in range(len(c["f"]))) for c in batch):
                    pass
                try:
                    with np.errstate(all="ignore"):
                        idx = s.peak_index(fmin, fmax).values
                        pf = s.peak_frequency(fmin, fmax).values
                        pp = s.peak_period(fmin, fmax).values
                        if kind == "1d":
                            pd_ = s.peak_direction(fmin, fmax).values
                            ps = s.peak_directional_spread(fmin, fmax).values
                except Exception as e:
                    if any(c["bands"][bi]["pk"] == 0 for c in batch):
                        continue   # unspecified member
                    chk.violation("raise:peak:%s" % type(e).__name__, "peak computation raised %s" % type(e).__name__,
                                  dict(ctx, band=[fmin, fmax], error=str(e)[:300]))
                    break
                evals += 1
                stop = False
                for i, c in enumerate(batch):
                    pk = c["bands"][bi]["pk"]
                    if pk == 0:
                        continue   # in-band maximum not > 0: unspecified
                    if kind == "2dnu":
                        # e(f) = density x bin width is rounded: an exact tie of the integers may come out 1 ulp apart, so only
                        # (case, band) pairs with a unique in-band maximum are judged on the non-uniform direction grid
                        b_ = c["bands"][bi]
                        inb = [c["e"][j] for j in range(len(c["f"])) if not c["nan"][j] and 2 * c["f"][j] >= b_["lo2"] and (b_["hi2"] == sc.INF2 or 2 * c["f"][j] < b_["hi2"])]
                        if inb.count(max(inb)) > 1:
                            continue
                    for second in ((False, True) if layout in ("time_lat", "flat") else (False,)):
                        cc = dict(ctx, e=c["e"], nan=c["nan"], band=[fmin, fmax], batch_index=i, expected_index=pk - 1)
                        gi = int(sc.value_at(idx, layout, i, second))
                        fexp = c["f"][pk - 1] * scale
                        if gi != pk - 1:
                            chk.violation("peak-index:%s:%s" % (kind, layout), "peak index is not the first in-band maximum", dict(cc, got=gi))
                            stop = True
                            break
                        gf = sc.value_at(pf, layout, i, second)
                        gp = sc.value_at(pp, layout, i, second)
                        if gf != fexp or (fexp > 0 and abs(gp * fexp - 1.0) > 1e-12):
                            chk.violation("peak-frequency", "peak frequency / period are not the grid frequency at the peak and its reciprocal",
                                          dict(cc, frequency=gf, period=gp))
                            stop = True
                            break
                        if kind == "1d":
                            gd = sc.value_at(pd_, layout, i, second)
                            gs = sc.value_at(ps, layout, i, second)
                            ed = 10.0 * pk
                            es = math.degrees(math.sqrt(2.0 * (1.0 - (1.0 - 0.05 * pk))))
                            if abs(gd - ed) > 1e-9 or abs(gs - es) > 1e-9:
                                chk.violation("peak-direction", "peak direction / spread are not the per-frequency values at the peak index",
                                              dict(cc, direction=gd, spread=gs, expected=[ed, es]))
                                stop = True
                                break
                        nontrivial += 1
                    if stop:
                        break
                if stop:
                    break
            # peak wavenumber (default band): dispersion relation at the spec-chosen (omega, depth)
            defaults = [bi for bi in range(nb) if batch[0]["bands"][bi]["lo2"] == 0 and batch[0]["bands"][bi]["hi2"] == sc.INF2]
            if defaults and all(c["bands"][defaults[0]]["pk"] > 0 for c in batch):
                bi = defaults[0]
                try:
                    kw = s.peak_wavenumber.values
                except Exception as e:
                    chk.violation("raise:peak_wavenumber:%s" % type(e).__name__, "peak_wavenumber raised", dict(ctx, error=str(e)[:300]))
                    continue
                evals += 1
                for i, c in enumerate(batch):
                    pk = c["bands"][bi]["pk"]
                    om = 2 * math.pi * c["f"][pk - 1] * scale
                    if om <= 0:
                        continue
                    d = dsel[i]
                    d = np.inf if (isinstance(d, float) and math.isnan(d)) else d
                    k = sc.value_at(kw, layout, i)
                    lhs = math.sqrt(G * k * (math.tanh(k * d) if math.isfinite(d) else 1.0)) if k > 0 else float("nan")
                    if not (k > 0 and abs(lhs - om) <= 1e-3 * om):
                        chk.violation("peak-wavenumber", "peak wavenumber does not satisfy the dispersion relation at the peak frequency and that point's depth",
                                      dict(ctx, e=c["e"], nan=c["nan"], batch_index=i, omega=om, depth=float(d), k=k, sqrt_gk_tanh=lhs))
                        break

        # histories of one object: TLC behaviours of SpectrumSession.tla replayed (queries interleaved with in-place changes) ----
        sessions = sc.tlc_sessions(chk, quick, chk.seed)
        nrep, nq = sc.session_replay(chk, sessions, rng, "peak")
        chk.add("spec_traces_replayed", nrep)
        chk.set("session_queries_compared", nq)
        evals += nq

        # code -> spec: random larger integer spectra, recorded peak indices validated by TLC ---------------------
        path = os.path.join(work, "c04.ndjson")
        recs = {}
        with open(path, "w") as fp:
            for j in range(200 if quick else 6000):
                nf = rng.randint(2, 12)
                f = sorted(rng.sample(range(0, 13), nf))
                e = [rng.choice([0, 1, 2, 5, 5, 9, 9, 20]) for _ in f]     # many ties / plateaus
                nan = [1 if rng.random() < 0.12 else 0 for _ in f]
                if all(nan):
                    nan[0] = 0
                lo2 = rng.choice([0, -1] + [2 * x for x in f] + [2 * x - 1 for x in f])
                hi2 = rng.choice([sc.INF2] + [2 * x for x in f] + [2 * x + 1 for x in f])
                if hi2 != sc.INF2 and hi2 <= lo2:
                    hi2 = sc.INF2
                line = {"f": f, "e": e, "nan": nan}
                layout = rng.choice(["scalar", "time"])
                s = sc.build([line], layout, rng.choice(["1d", "2d"]))
                fmin, fmax = sc.band_of({"lo2": lo2, "hi2": hi2})
                m2 = []
                for n in range(5):
                    v = 2.0 * sc.value_at(s.frequency_moment(n, fmin, fmax).values, layout, 0)
                    m2.append(int(round(v)) if abs(v - round(v)) < 1e-6 * max(1.0, abs(v)) else -1)
                try:
                    pk = int(sc.value_at(s.peak_index(fmin, fmax).values, layout, 0)) + 1
                except Exception:
                    pk = 0
                evals += 1
                rec = {"id": j, "f": f, "e": e, "nan": nan, "lo2": lo2, "hi2": hi2, "m2": m2, "pk": pk}
                recs[j] = rec
                fp.write(json.dumps(rec) + "\n")
        rt = common.run_tlc("Spectrum1DTrace", "Spectrum1DTrace.cfg", workers=1, timeout=3600, env={"TRACE_FILE": path})
        done = None
        for p in rt.prints:
            d = json.loads(p)
            if d.get("done"):
                done = d
                continue
            if 99 in d["bad"]:
                chk.violation("trace-peak", "recorded peak index differs from the reference",
                              {"record": recs[d["id"]], "expected_index_1based": d["pk"]})
        if done is None or done["consumed"] != len(recs):
            chk.machinery("Spectrum1DTrace did not consume the trace: %s" % (rt.error or rt.out[-600:]))
        chk.set("traces_validated_against_impl", len(recs))
        demo = os.path.join(work, "demo.ndjson")
        with open(demo, "w") as fp:
            fp.write(json.dumps({"id": 0, "f": [1, 2, 4], "e": [3, 3, 2], "nan": [0, 0, 0], "lo2": 0, "hi2": 999,
                                 "m2": [16, 37, 103, 331, 1171], "pk": 2}) + "\n")
        rd = common.run_tlc("Spectrum1DTrace", "Spectrum1DTrace.cfg", workers=1, timeout=300, env={"TRACE_FILE": demo})
        rej = [json.loads(p) for p in rd.prints if '"bad"' in p]
        okdemo = bool(rej) and 99 in rej[0]["bad"] and rej[0]["pk"] == 1
        chk.set("binding_demo", {"corrupted_rejected": okdemo, "field": "pk := 2 on a plateau whose first index is 1"})
        if not okdemo:
            chk.machinery("binding demonstration failed: %s" % rej)

        chk.set("evaluations", evals)
        chk.set("distinct_nontrivial", nontrivial)
        chk.assume("not judged: in-band maximum not greater than zero, empty band, a batch member that is missing everywhere "
                   "(argmax raises for the whole batch)")
        chk.assume("peak wavenumber: only the dispersion residual at the (peak frequency, depth) pair chosen by the spec is checked (1e-3 relative)")
        return chk.finish(rule="TLC enumerates grids x value vectors (with ties/plateaus) x masks x bands; batches of emitted spectra with different "
                               "peaks and depths per point in random layouts (1D/2D); non-trivial = (spectrum, band) pairs with a defined peak")
    finally:
        shutil.rmtree(work, ignore_errors=True)


def replay(path):
    with open(path) as fp:
        print(fp.read()[:4000])
    return 0
