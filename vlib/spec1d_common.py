"""Shared by drive_C01 / drive_C04 (and C12): Spectrum1D.tla cases, spectrum builders in every
layout, trace recording for Spectrum1DTrace.tla."""
import json
import math

from vlib import common

INF2 = 999


def tlc_laws(chk, quick):
    r = common.run_tlc("MCSpectrum1D", "Spectrum1D_laws_quick.cfg" if quick else "Spectrum1D_laws_thorough.cfg",
                       workers=16, timeout=7200)
    chk.tlc(r, "every grid / value vector / missing mask x every band on the half-integer lattice: linearity, sums, "
               "m1^2<=m0*m2, period bounds, peak = first in-band maximum")
    if r.violated:
        chk.violation("model:laws:%s" % r.violated, "Spectrum1D reference violates its own laws", {"tlc": r.out[-1500:]})
    elif not r.ok:
        chk.machinery("TLC failed on Spectrum1D laws: %s" % r.error)


def tlc_cases(chk, quick):
    r = common.run_tlc("MCSpectrum1D", "Spectrum1D_emit_quick.cfg" if quick else "Spectrum1D_emit_thorough.cfg",
                       workers=16, timeout=7200)
    chk.tlc(r, "emission of expected moments / peak index for representative bands (edge on node, between nodes, "
               "empty, single point, unbounded)")
    if r.violated:
        chk.violation("model:emit:%s" % r.violated, "Spectrum1D reference violates its own laws", {"tlc": r.out[-1500:]})
    elif not r.ok:
        chk.machinery("TLC failed on Spectrum1D emit: %s" % r.error)
    cases = []
    for p in r.prints:
        try:
            cases.append(json.loads(p))
        except Exception:
            pass
    return cases


def groups(cases, size, rng):
    """group emitted lines that share the frequency grid into batches of `size` spectra"""
    by = {}
    for c in cases:
        by.setdefault(tuple(c["f"]), []).append(c)
    out = []
    for f, lst in by.items():
        rng.shuffle(lst)
        for i in range(0, len(lst), size):
            out.append(lst[i:i + size])
    return out


def band_of(b, scale=1.0):
    import numpy as np
    return b["lo2"] / 2.0 * scale, (np.inf if b["hi2"] == INF2 else b["hi2"] / 2.0 * scale)


def build(batch, layout, kind, scale=1.0, moments=None, depth=None):
    """Build a spectrum holding the batch (list of emitted lines with the same grid).
    layout: 'scalar' (dims ()), 'time', 'time_lat' (time x latitude), 'flat' (flattened time_lat)
    kind: '1d' | '2d'.  moments: optional function j -> (a1,b1,a2,b2) per frequency index.
    Returns (spectrum, index function i -> position in the leading dims)."""
    import numpy as np
    from ocean_science_utilities.wavespectra.spectrum import create_1d_spectrum, create_2d_spectrum
    f = np.array(batch[0]["f"], dtype="float64") * scale
    nf = len(f)
    B = len(batch)
    E = np.array([[np.nan if c["nan"][j] else float(c["e"][j]) for j in range(nf)] for c in batch])
    if moments is None:
        moments = lambda j: (0.0, 0.0, 0.0, 0.0)   # noqa
    mom = np.array([moments(j) for j in range(nf)])  # nf x 4
    ddir = np.array([0.0, 90.0, 180.0, 270.0])
    if layout == "scalar":
        lead = ()
    elif layout == "time":
        lead = (B,)
    else:
        lead = (B, 2)
    if layout in ("time_lat", "flat"):
        Efull = np.stack([E, 2.0 * E], axis=1)      # second latitude: doubled spectrum
    elif layout == "scalar":
        Efull = E[0]
    else:
        Efull = E
    tvals = np.arange(B) * 3600
    if depth is None:
        depth = lambda i: np.inf   # noqa
    if layout == "scalar":
        time, lat, lon, dep = tvals[0], 1.0, 2.0, depth(0)
        dims = ("frequency",)
    elif layout == "time":
        time, lat, lon = tvals, np.arange(B) * 1.0, np.arange(B) * 2.0
        dep = np.array([depth(i) for i in range(B)], dtype="float64")
        dims = ("time", "frequency")
    else:
        time, lat = tvals, np.array([10.0, 20.0])
        lon = np.arange(B * 2, dtype="float64").reshape(B, 2)
        dep = np.array([[depth(i), depth(i)] for i in range(B)], dtype="float64")
        dims = ("time", "latitude", "frequency")
    if kind == "1d":
        shp = Efull.shape
        a1 = np.broadcast_to(mom[:, 0], shp).copy()
        b1 = np.broadcast_to(mom[:, 1], shp).copy()
        a2 = np.broadcast_to(mom[:, 2], shp).copy()
        b2 = np.broadcast_to(mom[:, 3], shp).copy()
        s = create_1d_spectrum(f, Efull, time, lat, lon, a1=a1, b1=b1, a2=a2, b2=b2, depth=dep, dims=dims)
    else:
        # all energy of a frequency in one direction bin (bin width 90 deg): e(f) = D * 90
        D = np.zeros(Efull.shape + (4,))
        D[..., 1] = Efull / 90.0
        s = create_2d_spectrum(f, ddir, D, time, lat, lon, dims=dims + ("direction",), depth=dep)
    if layout == "flat":
        s = s.flatten()
    return s


def value_at(arr, layout, i, second=False):
    """element of a result array for spectrum i of the batch (second: the doubled copy at latitude 2)"""
    import numpy as np
    a = np.asarray(arr)
    if layout == "scalar":
        return float(a)
    if layout == "time":
        return float(a[i])
    if layout == "time_lat":
        return float(a[i, 1 if second else 0])
    return float(a[2 * i + (1 if second else 0)])
