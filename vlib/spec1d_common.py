"""Shared by drive_C01 / drive_C04 (and C12): Spectrum1D.tla cases, spectrum builders in every
layout, trace recording for Spectrum1DTrace.tla."""
import json
import math

from vlib import common

INF2 = 999


def tlc_laws(chk, quick):
    r = common.run_tlc("MCSpectrum1D", "Spectrum1D_laws_quick.cfg" if quick else "Spectrum1D_laws_thorough.cfg",
                       workers=16, timeout=7200)
    chk.tlc(r, "every grid / value vector / missing mask x every band on the half-integer lattice: linearity, sums, "
               "m1^2<=m0*m2, period bounds, peak = first in-band maximum")
    if r.violated:
        chk.violation("model:laws:%s" % r.violated, "Spectrum1D reference violates its own laws", {"tlc": r.out[-1500:]})
    elif not r.ok:
        chk.machinery("TLC failed on Spectrum1D laws: %s" % r.error)


def tlc_cases(chk, quick):
    r = common.run_tlc("MCSpectrum1D", "Spectrum1D_emit_quick.cfg" if quick else "Spectrum1D_emit_thorough.cfg",
                       workers=16, timeout=7200)
    chk.tlc(r, "emission of expected moments / peak index for representative bands (edge on node, between nodes, "
               "empty, single point, unbounded)")
    if r.violated:
        chk.violation("model:emit:%s" % r.violated, "Spectrum1D reference violates its own laws", {"tlc": r.out[-1500:]})
    elif not r.ok:
        chk.machinery("TLC failed on Spectrum1D emit: %s" % r.error)
    cases = []
    for p in r.prints:
        try:
            cases.append(json.loads(p))
        except Exception:
            pass
    return cases


def groups(cases, size, rng):
    """group emitted lines that share the frequency grid into batches of `size` spectra"""
    by = {}
    for c in cases:
        by.setdefault(tuple(c["f"]), []).append(c)
    out = []
    for f, lst in by.items():
        rng.shuffle(lst)
        for i in range(0, len(lst), size):
            out.append(lst[i:i + size])
    return out


def band_of(b, scale=1.0):
    import numpy as np
    return b["lo2"] / 2.0 * scale, (np.inf if b["hi2"] == INF2 else b["hi2"] / 2.0 * scale)


def build(batch, layout, kind, scale=1.0, moments=None, depth=None, escale=1.0):
    """Build a spectrum holding the batch (list of emitted lines with the same grid).
    layout: 'scalar' (dims ()), 'time', 'time_lat' (time x latitude), 'flat' (flattened time_lat)
    kind: '1d' | '2d'.  moments: optional function j -> (a1,b1,a2,b2) per frequency index.
    Returns (spectrum, index function i -> position in the leading dims)."""
    import numpy as np
    from ocean_science_utilities.wavespectra.spectrum import create_1d_spectrum, create_2d_spectrum
    f = np.array(batch[0]["f"], dtype="float64") * scale
    nf = len(f)
    B = len(batch)
    # escale: a power of two (exact) by which every variance density is multiplied - peak selection must not depend on the level
    E = np.array([[np.nan if c["nan"][j] else float(c["e"][j]) * escale for j in range(nf)] for c in batch])
    if moments is None:
        moments = lambda j: (0.0, 0.0, 0.0, 0.0)   # noqa
    mom = np.array([moments(j) for j in range(nf)])  # nf x 4
    ddir = np.array([0.0, 90.0, 180.0, 270.0])
    if layout == "scalar":
        lead = ()
    elif layout == "time":
        lead = (B,)
    else:
        lead = (B, 2)
    if layout in ("time_lat", "flat"):
        Efull = np.stack([E, 2.0 * E], axis=1)      # second latitude: doubled spectrum
    elif layout == "scalar":
        Efull = E[0]
    else:
        Efull = E
    tvals = np.arange(B) * 3600
    if depth is None:
        depth = lambda i: np.inf   # noqa
    if layout == "scalar":
        time, lat, lon, dep = tvals[0], 1.0, 2.0, depth(0)
        dims = ("frequency",)
    elif layout == "time":
        time, lat, lon = tvals, np.arange(B) * 1.0, np.arange(B) * 2.0
        dep = np.array([depth(i) for i in range(B)], dtype="float64")
        dims = ("time", "frequency")
    else:
        time, lat = tvals, np.array([10.0, 20.0])
        lon = np.arange(B * 2, dtype="float64").reshape(B, 2)
        dep = np.array([[depth(i), depth(i)] for i in range(B)], dtype="float64")
        dims = ("time", "latitude", "frequency")
    if kind == "1d":
        shp = Efull.shape
        a1 = np.broadcast_to(mom[:, 0], shp).copy()
        b1 = np.broadcast_to(mom[:, 1], shp).copy()
        a2 = np.broadcast_to(mom[:, 2], shp).copy()
        b2 = np.broadcast_to(mom[:, 3], shp).copy()
        s = create_1d_spectrum(f, Efull, time, lat, lon, a1=a1, b1=b1, a2=a2, b2=b2, depth=dep, dims=dims)
    elif kind == "2dnu":
        # non-uniform direction grid; the energy of frequency j sits in ONE bin, (j mod 4), whose width differs from bin to bin:
        # e(f) = D * (that bin's width), so an unweighted sum over direction orders the frequencies differently from e(f)
        dnu = np.array([0.0, 45.0, 180.0, 270.0])
        D = np.zeros(Efull.shape + (4,))
        steps = create_2d_spectrum(f, dnu, D, time, lat, lon, dims=dims + ("direction",), depth=dep).direction_step.values
        for j in range(nf):
            D[..., j, j % 4] = Efull[..., j] / steps[j % 4]
        s = create_2d_spectrum(f, dnu, D, time, lat, lon, dims=dims + ("direction",), depth=dep)
    else:
        # all energy of a frequency in one direction bin (bin width 90 deg): e(f) = D * 90
        D = np.zeros(Efull.shape + (4,))
        D[..., 1] = Efull / 90.0
        s = create_2d_spectrum(f, ddir, D, time, lat, lon, dims=dims + ("direction",), depth=dep)
    if layout == "flat":
        s = s.flatten()
    return s


def value_at(arr, layout, i, second=False):
    """element of a result array for spectrum i of the batch (second: the doubled copy at latitude 2)"""
    import numpy as np
    a = np.asarray(arr)
    if layout == "scalar":
        return float(a)
    if layout == "time":
        return float(a[i])
    if layout == "time_lat":
        return float(a[i, 1 if second else 0])
    return float(a[2 * i + (1 if second else 0)])


# ---- histories of one spectrum object (SpectrumSession.tla) --------------------------------------------------------------------
def tlc_sessions(chk, quick, seed):
    """model-check the session machine, make sure the memoising design is rejected, and let TLC simulate behaviours"""
    r = common.run_tlc("SpectrumSession", "SpectrumSession_mc.cfg", workers=16, timeout=1800)
    chk.tlc(r, "histories of one spectrum object (query / scale in place / assign / fillna / copy, 3 operations): every query is fresh")
    if r.violated:
        chk.violation("model:session:%s" % r.violated, "SpectrumSession violates %s" % r.violated, {"tlc": r.out[-1500:]})
    elif not r.ok:
        chk.machinery("TLC failed on SpectrumSession_mc: %s" % r.error)
    rv = common.run_tlc("SpectrumSession", "SpectrumSession_memo.cfg", workers=16, timeout=600)
    if rv.violated != "QueriesFresh":
        chk.machinery("non-vacuity: the memoising design was not rejected by QueriesFresh (%s)" % (rv.violated or rv.error))
    chk.set("session_non_vacuity", "Design=memo rejected by QueriesFresh")
    num = 250 if quick else 4000
    rg = common.run_tlc("SpectrumSession", "SpectrumSession_gen.cfg", workers=1, timeout=1800, simulate="num=%d" % num, depth=9,
                        extra=["-seed", str(seed % 100000)])
    sessions = []
    for p in rg.prints:
        try:
            sessions.append(json.loads(p))
        except Exception:
            pass
    if not sessions:
        chk.machinery("TLC simulation of SpectrumSession produced no behaviours: %s" % (rg.error or rg.out[-400:]))
    chk.set("session_behaviours_generated", len(sessions))
    return sessions


def session_replay(chk, sessions, rng, what):
    """replay TLC behaviours of SpectrumSession on real spectrum objects; `what`: 'moments' (C01) or 'peak' (C04).
    Returns (replayed, queries)."""
    import numpy as np
    replayed = queries = 0

    def near(a, b, tol=1e-12):
        return abs(a - b) <= tol * max(1.0, abs(a), abs(b))
    for ses in sessions:
        layout = rng.choice(["scalar", "time", "time_lat", "flat"])
        kind = rng.choice(["1d", "1d", "2d", "2dnu"] if what == "moments" else ["1d", "1d", "2d"])   # (ties: see drive_C04)
        scale = rng.choice([1.0, 0.125])
        line = {"f": ses["f"], "e": ses["e"], "nan": ses["nan"]}
        line3 = {"f": ses["f"], "e": [3 * v for v in ses["e"]], "nan": ses["nan"]}
        batch = [line] if layout == "scalar" else [line, line3]
        ctx = {"f": ses["f"], "e": ses["e"], "nan": ses["nan"], "layout": layout, "kind": kind, "frequency_scale": scale}
        try:
            s = build(batch, layout, kind, scale)
        except Exception as e:
            chk.violation("raise:build:%s" % type(e).__name__, "building the spectrum raised", dict(ctx, error=str(e)[:300]))
            continue
        done = []
        for op in ses["hist"]:
            done.append({k: v for k, v in op.items() if k not in ("m", "pk")})
            try:
                if op["op"] == "scale":
                    s.multiply(np.array(op["c"], dtype="float64"), ["frequency"], inplace=True)
                elif op["op"] == "assign_rev":
                    var = s.dataset["variance_density"]
                    ax = list(var.dims).index("frequency")
                    s["variance_density"] = (var.dims, np.flip(var.values, axis=ax).copy())
                elif op["op"] == "fillna":
                    s.fillna(0.0)
                elif op["op"] == "copy":
                    s = s.copy(deep=True)
                else:
                    fmin, fmax = band_of(op, scale)
                    queries += 1
                    members = [(0, False, 1.0)] if layout == "scalar" else [(0, False, 1.0), (1, False, 3.0)] + \
                        ([(0, True, 2.0), (1, True, 6.0)] if layout in ("time_lat", "flat") else [])
                    if what == "moments":
                        mom = [s.frequency_moment(n, fmin, fmax).values for n in range(3)]
                        with np.errstate(all="ignore"):
                            hm0 = s.hm0(fmin, fmax).values
                        for i, second, fac in members:
                            exp = [fac * op["m"][n] / 2.0 * scale ** (n + 1) for n in range(3)]
                            got = [value_at(mom[n], layout, i, second) for n in range(3)]
                            h = value_at(hm0, layout, i, second)
                            if not (all(near(got[n], exp[n]) for n in range(3)) and near(h * h, 16.0 * exp[0], 1e-11)):
                                chk.violation("session:moment:%s" % "-".join(d["op"] for d in done),
                                              "after a history of in-place operations a frequency moment / Hm0 does not describe the spectrum as it is now",
                                              dict(ctx, history=done, band=[fmin, fmax], member=i, expected=exp, got=got, hm0=h))
                                raise StopIteration
                    else:
                        if op["pk"] == 0:
                            continue
                        with np.errstate(all="ignore"):
                            pk = s.peak_index(fmin, fmax).values
                            pf = s.peak_frequency(fmin, fmax).values
                        for i, second, fac in members:
                            gi, gf = value_at(pk, layout, i, second), value_at(pf, layout, i, second)
                            if not (int(gi) == op["pk"] - 1 and near(gf, ses["f"][op["pk"] - 1] * scale)):
                                chk.violation("session:peak:%s" % "-".join(d["op"] for d in done),
                                              "after a history of in-place operations the peak index / frequency does not describe the spectrum as it is now",
                                              dict(ctx, history=done, band=[fmin, fmax], member=i, expected_index=op["pk"] - 1, got_index=gi, got_frequency=gf))
                                raise StopIteration
            except StopIteration:
                break
            except Exception as e:
                chk.violation("raise:session:%s:%s" % (op["op"], type(e).__name__), "operation %s raised %s in a history" % (op["op"], type(e).__name__),
                              dict(ctx, history=done, error=str(e)[:300]))
                break
        replayed += 1
    return replayed, queries
