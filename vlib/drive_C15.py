"""C15 - Spectrum objects: no aliasing or mutation of operands; restructuring round-trips."""
import copy
import hashlib
import json
import os
import random
import shutil

from vlib import common

PID = "C15"
F0 = [0.1, 0.2, 0.3]


def digest(s):
    """hash of every variable and coordinate of a spectrum (bytes, dtype, shape, dims)"""
    import numpy as np
    h = hashlib.sha1()
    ds = s.dataset
    for name in sorted(list(ds.variables), key=str):
        v = ds[name]
        a = np.ascontiguousarray(v.values)
        h.update(str(name).encode())
        h.update(str(a.dtype).encode())
        h.update(str(a.shape).encode())
        h.update(str(v.dims).encode())
        h.update(a.tobytes())
    return h.hexdigest()


def arrays(s):
    # dimension coordinates are immutable pandas indexes which xarray shares even between deep copies
    ds = s.dataset
    return [ds[n].values for n in ds.variables if n not in ds.indexes]


def shares(a, b):
    import numpy as np
    for x in arrays(a):
        for y in arrays(b):
            if x.size and y.size and np.shares_memory(x, y):
                return True
    return False


def make_base(k, shape, kind="1d"):
    import numpy as np
    from ocean_science_utilities.wavespectra.spectrum import create_1d_spectrum, create_2d_spectrum
    n = 1
    for x in shape:
        n *= x
    f = np.array(F0)
    E = np.array([[1000.0 * k + 10 * i + j for j in range(3)] for i in range(n)])
    meta = np.array([100.0 * k + i + 1 for i in range(n)])
    if len(shape) == 0:
        dims = ("frequency",)
        E, time, lat, lon, dep = E[0], 1000 * k, 0.5 * k, 0.25 * k, meta[0]
    elif len(shape) == 1:
        dims = ("time", "frequency")
        time, lat, lon, dep = np.arange(n) * 3600, meta / 100.0, meta / 10.0, meta
    else:
        dims = ("time", "latitude", "frequency")
        E = E.reshape(shape[0], shape[1], 3)
        time, lat = np.arange(shape[0]) * 3600, np.array([10.0, 20.0])[:shape[1]]
        lon, dep = (meta / 10.0).reshape(shape), meta.reshape(shape)
    if kind == "1d":
        sh = E.shape
        return create_1d_spectrum(f, E, time, lat, lon, a1=np.full(sh, 0.5), b1=np.full(sh, 0.25), a2=np.full(sh, 0.1),
                                  b2=np.full(sh, -0.1), depth=dep, dims=dims)
    d = np.array([0.0, 90.0, 180.0, 270.0])
    D = E[..., None] * np.array([1.0, 2.0, 3.0, 4.0])
    return create_2d_spectrum(f, d, D, time, lat, lon, dims=dims + ("direction",), depth=dep)


def content_of(s):
    """(shape, cells, meta, freqs) of a real 1D spectrum in the model's vocabulary"""
    import numpy as np
    vd = s.variance_density.values
    lead = vd.shape[:-1]
    cells = vd.reshape(-1, vd.shape[-1])
    dep = np.asarray(s.dataset["depth"].values, dtype="float64").reshape(-1)
    fr = [int(round(float(x) * 10)) for x in s.frequency.values]
    return list(lead), cells.tolist(), dep.tolist(), fr


def first_dim(s):
    return s.dims[0]


def samegrid(a, b):
    """identical coordinates along every dimension of the variance density"""
    import numpy as np
    if list(a.dims) != list(b.dims):
        return False
    for d in a.dims:
        x, y = np.asarray(a.dataset[d].values), np.asarray(b.dataset[d].values)
        if x.shape != y.shape or not np.array_equal(x, y):
            return False
    return True


def replay_behaviour(chk, hist, hid, work):
    import numpy as np
    from ocean_science_utilities.wavespectra.operations import concatenate_spectra
    from ocean_science_utilities.wavespectra.spectrum import load_spectrum_from_netcdf
    objs = {}
    bases = set()
    nometa = set()
    n = 0
    for step_no, st in enumerate(hist):
        op = st["op"]
        args = st.get("args", [])
        before = {k: digest(o) for k, o in objs.items()}
        ctx = {"behaviour": hid, "step": step_no, "op": op, "args": args, "history": [dict((k, v) for k, v in h.items() if k != "result") for h in hist[:step_no + 1]]}
        res = None
        try:
            if op == "base":
                res = make_base(st["id"], st["shape"])
            elif op == "concat":
                res = concatenate_spectra([objs[a] for a in args], dim="time")
            elif op == "isel":
                x = objs[args[0]]
                res = x.isel(**{first_dim(x): st["i"] - 1}) if (step_no % 2 == 0) else x[tuple([st["i"] - 1] + [slice(None)] * (x.ndims - 1))]
            elif op == "flatten":
                res = objs[args[0]].flatten()
            elif op == "saveload":
                p = os.path.join(work, "s%s_%d.nc" % (hid, step_no))
                objs[args[0]].save_as_netcdf(p)
                res = load_spectrum_from_netcdf(p)
                res.dataset.load()
                res.dataset.close()
                os.remove(p)
            elif op == "deepcopy":
                res = copy.deepcopy(objs[args[0]]) if step_no % 2 else objs[args[0]].copy(deep=True)
            elif op == "shallowcopy":
                res = objs[args[0]].copy(deep=False)
            elif op == "add":
                res = objs[args[0]] + objs[args[1]]
            elif op == "sub":
                res = objs[args[0]] - objs[args[1]]
            elif op == "neg":
                res = -objs[args[0]]
            elif op == "mul":
                x = objs[args[0]]
                res = x.multiply(np.full(x.shape(), 2.0))
            elif op == "bandpass":
                res = objs[args[0]].bandpass(0.1 * st["lo"] - 0.05, 0.1 * st["hi"] - 0.05)
            elif op == "sum":
                x = objs[args[0]]
                res = x.sum(dim=first_dim(x))
            elif op == "mul_inplace":
                x = objs[args[0]]
                x.multiply(np.full(x.shape(), 2.0), inplace=True)
            elif op == "interp_linear":
                x = objs[args[0]]
                res = x.interpolate_frequency(x.frequency.values, method="linear")
            elif op == "interp_spline":
                x = objs[args[0]]
                res = x.interpolate_frequency(x.frequency.values, method="spline", monotone_interpolation=False)
            elif op == "userwrite":
                x = objs[args[0]]
                arr = x.dataset["variance_density"].values
                arr[...] = -arr - 1
        except Exception as e:
            if all(a in bases for a in args):
                chk.violation("raise:%s:%s" % (op, type(e).__name__), "%s raised %s on freshly constructed spectra" % (op, type(e).__name__),
                              dict(ctx, error=str(e)[:300]))
                return n, False
            # combinations the library does not support (e.g. arithmetic on isel results): not judged, but the
            # operands must still be unchanged
            after = {k: digest(o) for k, o in objs.items()}
            ch = sorted(k for k in before if before[k] != after[k])
            if ch:
                chk.violation("mutated-on-raise:%s" % op, "%s raised and changed objects %s" % (op, ch), dict(ctx, error=str(e)[:300]))
            return n, None
        if op == "base":
            bases.add(st["id"])
        n += 1
        # frame condition: nothing but the declared frame changes
        after = {k: digest(o) for k, o in objs.items()}
        changed = sorted(k for k in before if before[k] != after[k])
        frame = [st["id"]] if op in ("mul_inplace", "userwrite") else []
        if not set(changed) <= set(frame):
            chk.violation("mutated:%s" % op, "%s changed an operand (objects %s)" % (op, [c for c in changed if c not in frame]), dict(ctx, changed=changed))
            return n, False
        if res is not None:
            objs[st["id"]] = res
        # the result is a new object
        if res is not None and any(res is o for k, o in objs.items() if k != st["id"]):
            chk.violation("not-new:%s" % op, "%s returned one of its operands" % op, ctx)
        # deep copies share nothing with any older object
        if op == "deepcopy":
            sh = [k for k, o in objs.items() if k != st["id"] and shares(res, o)]
            if sh:
                chk.violation("deepcopy-shares", "a deep copy shares memory with objects %s" % sh, ctx)
                return n, False
        # predicted content
        tgt = objs[st["id"]]
        if op != "interp_spline":
            shape, cells, meta, fr = content_of(tgt)
            exp = st["result"]
            ok = shape == exp["shape"] and fr == exp["freqs"] and cells == [[float(v) for v in row] for row in exp["cells"]]
            if op == "sum" or any(a in nometa for a in args):
                nometa.add(st["id"])
            if ok and st["id"] not in nometa:
                ok = meta == [float(m) for m in exp["meta"]]
            if not ok:
                chk.violation("content:%s" % op, "%s: result differs from the symbolic prediction" % op,
                              dict(ctx, got={"shape": shape, "cells": cells, "meta": meta, "freqs": fr}, expected=exp))
                return n, False
        if op == "flatten":
            x = objs[args[0]]
            dims = x.dims_space_time
            for i, mi in enumerate(st["pairing"]):
                for d, ix in zip(dims, mi):
                    a = tgt.dataset[d].values[i]
                    b = x.dataset[d].values[ix]
                    if a != b:
                        chk.violation("flatten-pairing", "flatten does not pair spectrum %d with its coordinates (C order)" % i, dict(ctx, dim=d))
                        return n, False
            if len(tgt) != x.number_of_spectra:
                chk.violation("flatten-count", "flatten changed the number of spectra", ctx)
    return n, True


FRAME_RULES = {"fillna": "self", "multiply_inplace": "self"}


def random_sequence(chk, rng, sid, work, fp, recs):
    """code -> spec: a random sequence of <= 6 public operations on 1D / 2D spectra; every call is
    recorded with the objects whose bytes changed and, for deep copies, the objects it shares with."""
    import numpy as np
    from ocean_science_utilities.wavespectra.operations import concatenate_spectra
    from ocean_science_utilities.wavespectra.spectrum import load_spectrum_from_netcdf
    kind = rng.choice(["1d", "1d", "2d"])
    shape = rng.choice([(), (2,), (3,), (2, 2)])
    objs = {1: make_base(1, shape, kind), 2: make_base(2, shape, kind)}
    if rng.random() < 0.4:   # missing and infinite values
        o = objs[1]
        v = o.dataset["variance_density"].values.copy()
        v[(0,) * v.ndim] = np.nan
        o.dataset["variance_density"] = (o.dataset["variance_density"].dims, v)
        if len(shape) == 1:
            o.dataset["depth"] = (o.dataset["depth"].dims, np.where(np.arange(shape[0]) == 0, np.inf, o.dataset["depth"].values))
    nxt = 3
    nrec = 0
    for step in range(rng.randint(2, 6)):
        ids = sorted(objs)
        x = rng.choice(ids)
        X = objs[x]
        ops = ["add", "sub", "neg", "multiply", "multiply_inplace", "bandpass", "copy_deep", "deepcopy", "copy_shallow", "flatten",
               "fillna", "interp_linear", "interp_nearest", "saveload", "drop_invalid", "where"]
        if X.dims_space_time:
            ops += ["isel", "getitem", "sel", "mean", "sum", "std"]
        if not X.dims_space_time:
            ops += ["concat"]
        is1d = type(X).__name__ == "FrequencySpectrum"
        if not is1d:
            ops += ["as_1d"]
        else:
            ops += ["interp_spline", "as_2d"]
        op = rng.choice(ops)
        before = {k: digest(o) for k, o in objs.items()}
        res, frame, deep, rt = None, [], 0, 1
        why = []
        try:
            with np.errstate(all="ignore"):
                if op in ("add", "sub"):
                    cands = [k for k in ids if objs[k].shape() == X.shape() and type(objs[k]) is type(X) and samegrid(objs[k], X)]
                    y = rng.choice(cands)
                    res = X + objs[y] if op == "add" else X - objs[y]
                elif op == "neg":
                    res = -X
                elif op == "multiply":
                    res = X.multiply(np.full(X.shape(), 1.5))
                elif op == "multiply_inplace":
                    X.multiply(np.full(X.shape(), 1.5), inplace=True)
                    frame = [x]
                elif op == "bandpass":
                    res = X.bandpass(0.15, 0.35)
                elif op == "copy_deep":
                    res, deep = X.copy(deep=True), 1
                elif op == "deepcopy":
                    res, deep = copy.deepcopy(X), 1
                elif op == "copy_shallow":
                    res = X.copy(deep=False)
                elif op == "flatten":
                    res = X.flatten()
                    rt = 1 if len(res) == X.number_of_spectra else 0
                elif op == "fillna":
                    X.fillna(0.0)
                    frame = [x]
                elif op in ("interp_linear", "interp_nearest", "interp_spline"):
                    if is1d:
                        kw = {"monotone_interpolation": False} if op == "interp_spline" else {}
                        res = X.interpolate_frequency(np.array([0.12, 0.2, 0.28]), method=op.split("_")[1], **kw)
                    else:
                        res = X.interpolate_frequency(np.array([0.12, 0.2, 0.28]))
                elif op == "saveload":
                    p = os.path.join(work, "r%s_%d.nc" % (sid, step))
                    X.save_as_netcdf(p)
                    res = load_spectrum_from_netcdf(p)
                    res.dataset.load()
                    res.dataset.close()
                    os.remove(p)
                    same = type(res) is type(X) and list(res.dims) == list(X.dims)
                    for name in X.dataset.variables:
                        a, b = np.asarray(X.dataset[name].values), np.asarray(res.dataset[name].values)
                        if a.dtype.kind == "M":
                            same = same and np.array_equal(a.astype("datetime64[ns]"), b.astype("datetime64[ns]"))
                        else:
                            same = same and np.array_equal(a.astype("float64"), b.astype("float64"), equal_nan=True)
                    rt = 1 if same else 0
                elif op == "drop_invalid":
                    res = X.drop_invalid()
                elif op == "where":
                    res = X.where(X.is_valid())
                elif op == "isel":
                    d = X.dims[0]
                    i = rng.randrange(X.shape()[0])
                    res = X.isel(**{d: i})
                    rt = 1 if np.array_equal(res.variance_density.values, X.variance_density.values[i], equal_nan=True) else 0
                elif op == "getitem":
                    i = rng.choice([0, 0, X.shape()[0] - 1, rng.randrange(X.shape()[0])])
                    res = X[tuple([i] + [slice(None)] * (X.ndims - 1))]
                    okk = np.array_equal(res.variance_density.values, X.variance_density.values[i], equal_nan=True)
                    for name in ("depth", "latitude", "longitude"):
                        if name in X.dataset and X.dataset[name].dims and X.dataset[name].dims[0] == X.dims[0] and name in res.dataset:
                            okk = okk and np.array_equal(np.asarray(res.dataset[name].values, dtype="float64"),
                                                         np.asarray(X.dataset[name].values[i], dtype="float64"), equal_nan=True)
                    rt = 1 if okk else 0
                elif op == "sel":
                    d = X.dims[0]
                    i = rng.randrange(X.shape()[0])
                    res = X.sel({d: X.dataset[d].values[i]})
                    rt = 1 if np.array_equal(res.variance_density.values, X.variance_density.values[i], equal_nan=True) else 0
                elif op in ("mean", "sum", "std"):
                    res = getattr(X, op)(dim=X.dims[0])
                elif op == "concat":
                    # (xarray aligns on coordinates: only spectra on identical spectral grids can be joined)
                    cands = [k for k in ids if not objs[k].dims_space_time and type(objs[k]) is type(X)
                             and objs[k].shape() == X.shape() and samegrid(objs[k], X)]
                    N = rng.randint(1, 6)
                    parts = [rng.choice(cands) for _ in range(N)]
                    res = concatenate_spectra([objs[k] for k in parts], dim=rng.choice(["time", "latitude", "longitude"]))
                    ok = res.variance_density.shape[0] == N
                    for i, k in enumerate(parts):
                        sub = res.isel(**{res.dims[0]: i})
                        for name in ("variance_density", "a1", "b1", "a2", "b2", "time", "latitude", "longitude", "depth"):
                            if name in objs[k].dataset and name in sub.dataset:
                                a, b = np.asarray(objs[k].dataset[name].values), np.asarray(sub.dataset[name].values)
                                if a.dtype.kind == "M":
                                    same_ = np.array_equal(a.astype("datetime64[ns]"), b.astype("datetime64[ns]"))
                                else:
                                    same_ = np.array_equal(a.astype("float64"), b.astype("float64"), equal_nan=True)
                                if not same_:
                                    why.append("%s of element %d: %s vs %s" % (name, i, str(a)[:80], str(b)[:80]))
                                ok = ok and same_
                    rt = 1 if ok else 0
                elif op == "as_1d":
                    res = X.as_frequency_spectrum()
                elif op == "as_2d":
                    res = X.as_frequency_direction_spectrum(8, method="mem")
        except Exception as e:
            after = {k: digest(o) for k, o in objs.items()}
            ch = sorted(k for k in before if before[k] != after[k])
            if x in (1, 2) and step == 0 and op not in ("sel",):
                chk.violation("raise:%s:%s" % (op, type(e).__name__), "%s raised %s on a freshly constructed spectrum" % (op, type(e).__name__),
                              {"sequence": sid, "op": op, "kind": kind, "shape": list(shape), "error": str(e)[:300]})
            elif ch:
                chk.violation("mutated-on-raise:%s" % op, "%s raised and changed objects %s" % (op, ch), {"sequence": sid, "op": op})
            return nrec
        after = {k: digest(o) for k, o in objs.items()}
        changed = sorted(k for k in before if before[k] != after[k])
        sh = []
        if res is not None:
            if deep:
                sh = [k for k, o in objs.items() if shares(res, o)]
            objs[nxt] = res
            nxt += 1
        rec = {"id": "%s.%d" % (sid, step), "op": op, "frame": frame, "changed": changed, "deep": deep, "shares": sh, "roundtrip": rt,
               "kind": kind, "shape": list(shape), "operand": x, "why": why[:3]}
        recs[rec["id"]] = rec
        fp.write(json.dumps(rec) + "\n")
        nrec += 1
    return nrec


def roundtrip_probes(chk, work, rng):
    """netCDF round trips and concatenations on inputs the random sequences rarely produce: time stamps that are not whole
    seconds (as a logger, a netCDF file or mean("time") delivers them) and members passed in non-chronological order."""
    import numpy as np
    from ocean_science_utilities.wavespectra.operations import concatenate_spectra
    from ocean_science_utilities.wavespectra.spectrum import load_spectrum_from_netcdf
    n = 0
    for kind in ("1d", "2d"):
        for shape in ((), (3,), (2, 2)):
            # (millisecond stamps only: nanosecond stamps such as 1.333333333 s cannot be written by the netCDF3 backend of this
            # sandbox - int64 - whatever the library does; that is a property of the backend, not of the library)
            for stamps in ("ms",):
                o = make_base(1, shape, kind)
                t0 = np.datetime64("2021-06-07T08:09:10.000000000")
                if shape:
                    off = [np.timedelta64(1250 * i + 7, "ms") if stamps == "ms" else np.timedelta64(1333333333 * (i + 1), "ns") for i in range(shape[0])]
                    o.dataset = o.dataset.assign_coords(time=("time", np.array([t0 + x for x in off]).astype("datetime64[ns]")))
                else:
                    o.dataset["time"] = ((), (t0 + np.timedelta64(1333333333, "ns")).astype("datetime64[ns]"))
                p = os.path.join(work, "probe_%s_%d_%s.nc" % (kind, len(shape), stamps))
                ctx = {"kind": kind, "shape": list(shape), "time_stamps": stamps}
                try:
                    o.save_as_netcdf(p)
                    res = load_spectrum_from_netcdf(p)
                    res.dataset.load()
                    res.dataset.close()
                    os.remove(p)
                except Exception as e:
                    chk.violation("raise:roundtrip-probe:%s" % type(e).__name__, "netCDF round trip of a spectrum with sub-second time stamps raised", dict(ctx, error=str(e)[:300]))
                    continue
                n += 1
                bad = []
                if type(res) is not type(o):
                    bad.append("kind")
                for name in o.dataset.variables:
                    if name not in res.dataset.variables:
                        bad.append("missing " + str(name))
                        continue
                    a, b = np.asarray(o.dataset[name].values), np.asarray(res.dataset[name].values)
                    if a.dtype.kind == "M":
                        if not np.array_equal(a.astype("datetime64[ns]"), b.astype("datetime64[ns]")):
                            bad.append(str(name))
                    elif not np.array_equal(a.astype("float64"), b.astype("float64"), equal_nan=True):
                        bad.append(str(name))
                if bad:
                    chk.violation("roundtrip-probe:%s" % "+".join(bad), "saving to and loading from netCDF changed %s (time stamps that are not whole seconds)" % bad, ctx)
        # concatenation of N >= 3 members in every order: element i is input i
        for N in (3, 4):
            singles = [make_base(k + 1, (), kind) for k in range(N)]
            for k, sgl in enumerate(singles):
                sgl.dataset["time"] = ((), np.datetime64("2021-01-01T00:00:00", "ns") + np.timedelta64(3600 * (k + 1), "s"))
                sgl.dataset["latitude"] = ((), 10.0 * (k + 1))
            for rep in range(4):
                order = list(range(N))
                rng.shuffle(order)
                for dim in ("time", "latitude"):
                    try:
                        cat = concatenate_spectra([singles[i] for i in order], dim=dim)
                    except Exception as e:
                        chk.violation("raise:concat-probe:%s" % type(e).__name__, "concatenating single spectra raised", {"kind": kind, "order": order, "dim": dim, "error": str(e)[:300]})
                        continue
                    n += 1
                    for pos, i in enumerate(order):
                        el = cat.isel(**{dim: pos})
                        if not (np.array_equal(el.variance_density.values, singles[i].variance_density.values) and
                                np.array_equal(np.asarray(el.dataset[dim].values), np.asarray(singles[i].dataset[dim].values))):
                            chk.violation("concat-probe:%s" % dim, "element %d of a concatenation is not input %d (members passed in the order %s)" % (pos, pos, order),
                                          {"kind": kind, "order": order, "dim": dim})
                            break
    return n


def alias_probes(chk):
    """Every selection / view producing operation followed by every operation that changes its receiver by
    contract (fillna, multiply(inplace=True)), applied to the *derived* object, with missing values present:
    the object it was derived from must stay bit-for-bit unchanged."""
    import numpy as np
    from ocean_science_utilities.wavespectra.operations import concatenate_spectra
    n = 0
    for kind in ("1d", "2d"):
        for shape in ((3,), (2, 2)):
            def fresh():
                o = make_base(1, shape, kind)
                for name in (["variance_density", "a1", "b1"] if kind == "1d" else ["variance_density"]):
                    v = o.dataset[name].values.copy()
                    v[..., 0] = np.nan if name == "variance_density" and kind == "1d" else v[..., 0]
                    if kind == "2d":
                        v[..., 0, :] = np.nan
                    else:
                        v[..., 0] = np.nan
                    o.dataset[name] = (o.dataset[name].dims, v)
                return o
            d0 = "time"
            views = {
                "getitem-slice": lambda x: x[tuple([slice(0, 2)] + [slice(None)] * (x.ndims - 1))],
                "getitem-int": lambda x: x[tuple([1] + [slice(None)] * (x.ndims - 1))],
                "getitem-zero": lambda x: x[tuple([0] + [slice(None)] * (x.ndims - 1))],
                "isel-int": lambda x: x.isel(**{d0: 1}),
                "isel-slice": lambda x: x.isel(**{d0: slice(0, 2)}),
                "flatten": lambda x: x.flatten(),
                "bandpass": lambda x: x.bandpass(0.05, 0.25),
                "bandpass-full-band": lambda x: x.bandpass(),
                "bandpass-wide-band": lambda x: x.bandpass(0.0, 10.0),
                "sel": lambda x: x.sel({d0: x.dataset[d0].values[1]}),
                "copy-shallow": lambda x: x.copy(deep=False),
                "where": lambda x: x.where(x.is_valid() | True),
            }
            muts = {"fillna": lambda y: y.fillna(0.0), "multiply-inplace": lambda y: y.multiply(np.full(y.shape(), 2.0), inplace=True)}
            for vname_, vf in views.items():
                for mname, mf in muts.items():
                    base = fresh()
                    before = digest(base)
                    try:
                        der = vf(base)
                        mf(der)
                    except Exception:
                        continue        # combination not supported by the library: not judged
                    n += 1
                    if digest(base) != before:
                        chk.violation("alias:%s+%s" % (vname_, mname), "%s on the result of %s changed the spectrum it was derived from" % (mname, vname_),
                                      {"kind": kind, "shape": list(shape), "view": vname_, "mutation": mname})
            # concatenate single spectra, select each element, mutate it: the inputs must stay unchanged
            singles = [make_base(k + 1, (), kind) for k in range(3)]
            befores = [digest(x) for x in singles]
            cat = concatenate_spectra(singles, dim="time")
            for i in range(3):
                el = cat[tuple([i] + [slice(None)] * (cat.ndims - 1))]
                el.fillna(0.0)
                el.multiply(np.full(el.shape(), 2.0), inplace=True)
                n += 1
            if [digest(x) for x in singles] != befores:
                chk.violation("alias:concat", "mutating a selected element of a concatenation changed an input spectrum", {"kind": kind})
    return n


def run(tier):
    quick = tier == "quick"
    chk = common.Check(PID, "model_checking", tier)
    rng = random.Random(chk.seed + 15)
    common.setup_numba_cache()
    import numpy as np  # noqa
    work = common.scratch_dir("c15")
    evals = 0
    try:
        r = common.run_tlc("SpectrumOps", "SpectrumOps_mc.cfg", workers=16, timeout=3600)
        chk.tlc(r, "all operation sequences of length <= 5 over <= 4 objects: operands unchanged, deep results fresh, deep copies isolated "
                   "from writes, concat/isel, flatten, save/load round trips")
        if r.violated:
            chk.violation("model:%s" % r.violated, "SpectrumOps model violates %s" % r.violated, {"tlc": r.out[-1500:]})
        elif not r.ok:
            chk.machinery("TLC failed on SpectrumOps: %s" % r.error)
        rh = common.run_tlc("SpectrumOps", "SpectrumOps_head.cfg", workers=8, timeout=900)
        chk.set("nonvacuity_head_variant_violates", rh.violated or "NOT VIOLATED")
        if not rh.violated:
            chk.machinery("the head variant (spline interpolation fills its operand) is not rejected: model is vacuous")
        # spec -> code: behaviours
        rg = common.run_tlc("SpectrumOps", "SpectrumOps_gen.cfg", workers=1, timeout=1800,
                            simulate="num=%d" % (70 if quick else 3000), depth=9, extra=["-seed", str(chk.seed % 100000 + 15)])
        hists, seen = [], set()
        for p in rg.prints:
            if p in seen:
                continue
            seen.add(p)
            hists.append(json.loads(p))
        hists = hists[:(70 if quick else 3000)]
        if not hists:
            chk.machinery("TLC generated no behaviours: %s" % (rg.error or rg.out[-400:]))
        okb = 0
        skipped = 0
        for hid, h in enumerate(hists):
            n, ok = replay_behaviour(chk, h, hid, work)
            evals += n
            okb += 1 if ok else 0
            skipped += 1 if ok is None else 0
        chk.set("behaviours_replayed", len(hists))
        chk.set("behaviours_conforming", okb)
        chk.set("behaviours_cut_short_by_unsupported_combination", skipped)
        if hists:
            chk.sample({"tlc_behaviour": [dict((k, v) for k, v in s.items() if k != "result") for s in hists[0]]})
        # code -> spec: random sequences, recorded and judged by TLC
        path = os.path.join(work, "c15.ndjson")
        recs, nrec = {}, 0
        nseq = 120 if quick else 4000
        with open(path, "w") as fp:
            for j in range(nseq):
                nrec += random_sequence(chk, rng, "q%d" % j, work, fp, recs)
        evals += nrec
        evals += alias_probes(chk)
        evals += roundtrip_probes(chk, work, rng)
        rt = common.run_tlc("SpectrumOpsTrace", "SpectrumOpsTrace.cfg", workers=1, timeout=3600, env={"TRACE_FILE": path})
        done = None
        for p in rt.prints:
            d = json.loads(p)
            if d.get("done"):
                done = d
                continue
            rec = recs[d["id"]]
            chk.violation("trace:%s:%s" % (rec["op"], "+".join(d["clauses"])), "recorded %s violates %s" % (rec["op"], d["clauses"]), {"record": rec})
        if done is None or done["consumed"] != nrec:
            chk.machinery("SpectrumOpsTrace did not consume the trace: %s" % (rt.error or rt.out[-600:]))
        chk.set("traces_validated_against_impl", nrec)
        demo = os.path.join(work, "demo.ndjson")
        with open(demo, "w") as fp:
            fp.write(json.dumps({"id": "demo", "op": "add", "frame": [], "changed": [1], "deep": 0, "shares": [], "roundtrip": 1}) + "\n")
        rd = common.run_tlc("SpectrumOpsTrace", "SpectrumOpsTrace.cfg", workers=1, timeout=300, env={"TRACE_FILE": demo})
        okdemo = any("OperandsUnchanged" in p for p in rd.prints)
        chk.set("binding_demo", {"corrupted_rejected": okdemo})
        if not okdemo:
            chk.machinery("binding demonstration failed")
        chk.set("evaluations", evals)
        chk.set("distinct_nontrivial", len(hists) + nseq)
        chk.assume("behaviours use 1D spectra whose variance densities are integer cell identifiers (exact comparison); 2D spectra, NaN and "
                   "infinite depth enter through the recorded random sequences")
        chk.assume("only deep copies (copy(deep=True), copy.deepcopy) are required to share no memory; views returned by selection are allowed")
        return chk.finish(rule="TLC explores every operation sequence in the bounded heap model; behaviours = TLC -simulate (8 calls) replayed with "
                               "byte hashes of every live object before/after each call; random sequences of 2..6 calls; distinct = behaviours + sequences")
    finally:
        shutil.rmtree(work, ignore_errors=True)


def replay(path):
    with open(path) as fp:
        print(fp.read()[:4000])
    return 0
