#!/usr/bin/env python3
"""Regenerates MANIFEST.json from the table below (keeps it valid at all times)."""
import json, os
HERE = os.path.dirname(os.path.abspath(__file__))
CHECKS = json.load(open(os.path.join(HERE, "manifest_checks.json")))
NA = json.load(open(os.path.join(HERE, "manifest_na.json")))
m = {
 "version": 1,
 "setup_cmd": "mkdir -p /verif/evidence /verif/replays /verif/.cache && tla-sany /verif/spec/FileCache.tla >/dev/null 2>&1; true",
 "hooks": {
  "guard": "OCEAN_SCIENCE_UTILITIES_VERIF",
  "enable": "no hooks were needed inside /repo: checks observe the library through its public API, its cache directory and harness-owned resources; ./check exports OCEAN_SCIENCE_UTILITIES_VERIF=1 for uniformity",
  "baseline_off_cmd": "cd /repo && /venv/bin/python -m pytest -ra -q -p no:cacheprovider --timeout=900 --continue-on-collection-errors",
  "source_commits": [],
  "add_only": True
 },
 "engines": [
  {"name": "tlc", "path": "/opt/veriftools/tla/tla2tools.jar", "serves_properties": [c["property_id"] for c in CHECKS],
   "kind_free_text": "TLC 1.8 explicit-state model checker: model checking of spec/*.tla, behaviour generation (-simulate), trace validation (*Trace.tla)"}
 ],
 "checks": [],
 "not_applicable": NA,
 "notes": "Every check is ./check <id> --tier quick|thorough; see DESIGN.md. Known findings / fixed defects: known_findings.json. Beyond the listed properties: ./check REG (spec/CacheRegistry.tla, the module-level registry of named caches; evidence in evidence_extra/REG.json; DESIGN.md 9.9). Seeded changes and the checks that catch them: seeded/CATCH_MATRIX.md."
}
for c in CHECKS:
    pid = c["property_id"]
    m["checks"].append({
        "property_id": pid,
        "quick_cmd": "./check %s --tier quick" % pid,
        "thorough_cmd": "./check %s --tier thorough" % pid,
        "evidence_file": "/verif/evidence/%s.json" % pid,
        "replay_cmd_template": "./check %s --replay {path}" % pid,
        "engine": "tlc",
        "level_claimed": {"category": c["category"], "text": c["text"], "design_ref": c.get("design_ref", "DESIGN.md section 4, " + pid)},
        "level_note": c["note"],
        "technique": c["technique"],
    })
json.dump(m, open(os.path.join(HERE, "MANIFEST.json"), "w"), indent=1)
print("MANIFEST.json: %d checks, %d not applicable" % (len(m["checks"]), len(NA)))
