#!/usr/bin/env python3
"""Write seeded/<dir>/meta.json from README.txt and result.json (produced by tools/try_seed.py)."""
import json, os, re, sys
root = os.path.join(os.path.dirname(os.path.dirname(os.path.abspath(__file__))), "seeded")
for d in sorted(os.listdir(root)):
    p = os.path.join(root, d)
    if not os.path.isdir(p) or not os.path.exists(os.path.join(p, "result.json")):
        continue
    res = json.load(open(os.path.join(p, "result.json")))
    readme = open(os.path.join(p, "README.txt")).read() if os.path.exists(os.path.join(p, "README.txt")) else ""
    meta = {
        "property": d.split("-")[0],
        "name": d,
        "origin": "written by an independent sub-agent that saw only the property text and a scratch worktree of /repo",
        "what_it_needs_to_manifest": readme.strip()[:1500],
        "confirmed": {
            "patch_applies_to_repo_head": res.get("applies"),
            "demo_exit_without_patch": res.get("demo_clean_exit"),
            "demo_exit_with_patch": res.get("demo_patched_exit"),
            "baseline_tests_broken_by_patch": res.get("baseline_tests_broken", "not re-run here (the sub-agent ran the suite: same passing set)"),
        },
        "ran": "python3 tools/try_seed.py seeded/%s %s" % (d, " ".join(res.get("checks", {}).keys())),
        "checks": res.get("checks"),
        "detected_by": sorted(k for k, v in res.get("checks", {}).items() if v.get("exit") == 1),
        "evaluated_at": res.get("at"),
    }
    json.dump(meta, open(os.path.join(p, "meta.json"), "w"), indent=1)
    print(d, "detected by", meta["detected_by"] or "NONE")
