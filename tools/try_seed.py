#!/usr/bin/env python3
"""Evaluate one seeded change against the checks.

  tools/try_seed.py <dir with patch.diff + demo.py> <property id> [more ids] [--tests] [--tier quick]

Applies the patch to /repo's working tree, confirms the demonstration (exit 0 without, non-zero
with the patch), optionally runs the repository's test suite with the patch, runs the given checks,
always restores /repo (git checkout -- .), and writes <dir>/result.json.
"""
import json
import os
import subprocess
import sys
import time

REPO = "/repo"


def sh(cmd, **kw):
    return subprocess.run(cmd, shell=True, stdout=subprocess.PIPE, stderr=subprocess.STDOUT, text=True, **kw)


def main():
    args = [a for a in sys.argv[1:] if not a.startswith("--")]
    flags = [a for a in sys.argv[1:] if a.startswith("--")]
    d = os.path.abspath(args[0])
    ids = args[1:]
    tier = "quick"
    for f in flags:
        if f.startswith("--tier="):
            tier = f.split("=")[1]
    patch = os.path.join(d, "patch.diff")
    demo = os.path.join(d, "demo.py")
    res = {"dir": d, "checks": {}, "at": time.strftime("%Y-%m-%dT%H:%M:%S")}
    assert sh("git -C %s status --porcelain" % REPO).stdout.strip() == "", "/repo is not clean"
    r = sh("git -C %s apply --check %s" % (REPO, patch))
    if r.returncode != 0:
        print("patch does not apply:", r.stdout)
        res["applies"] = False
        json.dump(res, open(os.path.join(d, "result.json"), "w"), indent=1)
        return 2
    res["applies"] = True
    env = dict(os.environ, PYTHONWARNINGS="ignore", TQDM_DISABLE="1")
    if os.path.exists(demo):
        r0 = sh("cd /tmp && timeout 1500 /venv/bin/python %s" % demo, env=env)
        res["demo_clean_exit"] = r0.returncode
    try:
        sh("git -C %s apply %s" % (REPO, patch))
        if os.path.exists(demo):
            r1 = sh("cd /tmp && timeout 1500 /venv/bin/python %s" % demo, env=env)
            res["demo_patched_exit"] = r1.returncode
            res["demo_patched_tail"] = r1.stdout[-600:]
        if "--tests" in flags:
            rt = sh("cd %s && timeout 3000 /venv/bin/python -m pytest -q -p no:cacheprovider --timeout=900 --continue-on-collection-errors "
                    "--junitxml=/tmp/seedtest.xml" % REPO, env=env)
            import xml.etree.ElementTree as ET
            base = json.load(open("/root/.vp/BASELINE.json"))["stable_pass"]
            ok = {}
            for tc in ET.parse("/tmp/seedtest.xml").getroot().iter("testcase"):
                ok[tc.get("classname") + "::" + tc.get("name")] = not any(c.tag in ("failure", "error") for c in tc)
            res["baseline_tests_broken"] = [n for n in base if not ok.get(n)]
        for pid in ids:
            t0 = time.time()
            rc = sh("cd /verif && ./check %s --tier %s" % (pid, tier), env=env)
            viol = [l for l in rc.stdout.splitlines() if l.startswith("VIOLATION")]
            what = [l.strip() for l in rc.stdout.splitlines() if l.strip().startswith("what:")]
            res["checks"][pid] = {"exit": rc.returncode, "violations": len(viol), "first": (viol[:2] + what[:2]), "wall_s": round(time.time() - t0, 1)}
            print(pid, "exit", rc.returncode, "violations", len(viol), what[:1])
    finally:
        sh("git -C %s checkout -- ." % REPO)
        sh("rm -rf /verif/replays/*")
    res["repo_clean_after"] = sh("git -C %s status --porcelain" % REPO).stdout.strip() == ""
    json.dump(res, open(os.path.join(d, "result.json"), "w"), indent=1)
    print(json.dumps({k: v for k, v in res.items() if k != "demo_patched_tail"}, indent=1))
    return 0


if __name__ == "__main__":
    sys.exit(main())
