#!/usr/bin/env python3
"""Self-test of the reporting paths of the shared trace validators: a corrupted record of every kind must come back as a
violation (no exception, no machinery failure).  Run:  /venv/bin/python tools/selftest_reporting.py"""
import os, sys, tempfile
sys.path.insert(0, os.path.dirname(os.path.dirname(os.path.abspath(__file__))))
from vlib import phys_common as pc            # noqa
from vlib import drive_C07                    # noqa


class Dummy:
    def __init__(self):
        self.v, self.m = [], []

    def violation(self, key, what, replay):
        self.v.append(key)

    def machinery(self, what):
        self.m.append(what)

    def add(self, *a):
        pass

    def set(self, *a):
        pass


d = tempfile.mkdtemp()
ok = True
chk = Dummy()
t = pc.SupportTrace(os.path.join(d, "a.ndjson"))
t.add({"kind": "support", "what": "x", "period": 360, "dir": [0, 90, 180, 270], "w": 0, "en": [[1, 1, 1, 1]], "inp": [[1, 0, 1, 0]], "dis": [[-1, -1, 0, 0]]})
t.add({"kind": "root", "what": "x", "sg": [1, 1, -1, -1], "res": 3, "finite": 0})
t.add({"kind": "mask", "what": "x", "inm": [1, 0], "outm": [0, 0]})
t.add({"kind": "mono", "what": "x", "rk": [1, 3, 2]})
t.validate(chk, "T")
print("SignSupportTrace:", sorted(chk.v), chk.m)
ok = ok and len(chk.v) == 4 and not chk.m
chk = Dummy()
t = drive_C07.Trace(os.path.join(d, "b.ndjson"))
t.add({"kind": "call", "what": "c", "pos": [1, 0], "res": [1, 0], "same": [1, 1]})
t.add({"kind": "mono", "what": "m", "dir": 1, "sg": [1, 0]})
t.add({"kind": "flags", "what": "f", "name": "GroupVelocity", "ok": [1, 0]})
t.add({"kind": "accessor", "what": "a", "dcls": ["nan"], "classes": ["d1", "d2", "inf"], "match": [[0, 1, 0]]})
t.validate(chk)
print("DispersionTrace:", sorted(chk.v), chk.m)
ok = ok and len(chk.v) == 4 and all('cannot tell the depth classes apart' in m for m in chk.m)   # the corrupted accessor record is also 'confusable'
print("OK" if ok else "FAILED")
sys.exit(0 if ok else 1)
